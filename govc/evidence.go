package main

import (
	"encoding/json"
	"fmt"
	"os"
	"sort"
	"strings"
	"time"
)

var globalAssumptions = []string{
	"go/packages+go/types+go/ssa (x/tools v0.29.0) give a faithful SSA of /repo's working tree; the SSA->VC translation of govc itself is trusted (exercised by the must-fail corpus, not verified)",
	"z3 5.1.0 / z3 4.8.12 / cvc5 1.0.3 answer unsat soundly",
	"machine integers are modelled as mathematical integers (no wrap-around); floats are an uninterpreted sort; strings are an uninterpreted sort with length/byte/substring/concat axioms",
	"append writes in place (sharing the backing array of its first argument) exactly when the capacity suffices, otherwise into a fresh array; capacities of slices that come from outside the function are unconstrained",
	"library functions are represented by the hand-written specs in govc/calls.go (strings, strconv, fmt, sort, utf8, runewidth, filepath); unlisted library calls return arbitrary well-typed values and do not write the package heap except as listed in govc/modset.go",
	"closed world: the implementers of package interfaces are the ones in the package; goroutines, channels and select are not modelled (functions using them are verified as sequential code)",
	"nullability facts (verif_contracts_auto.go) are inferred by a Houdini pass and re-verified on every run; preconditions of exported entry points that no in-package call site constrains are assumptions on API callers; functions only called through function values get no inferred precondition; containers filled by reflection-based decoding get no inferred element facts",
	"assumed about gopkg.in/yaml.v3: a mapping node has an even number of children, only sequence/mapping/document nodes have children, children are never nil (assume_inv / nonnil_elems lines of verif_contracts_parse.go); a type that implements yaml.Unmarshaler is decoded only through its UnmarshalYAML method (nonnil_elems of the action / reusable-workflow metadata maps, verif_contracts_decode.go); Node.Decode into a struct with yaml tags: pointer field non-nil iff the key is present with a non-null value, bool / string fields are functions of node and key (yhas, ybool, ystr)",
	"the file system is read as a function of the path within one run (statok, statdir for os.Stat; pathdir, pathjoin for filepath.Dir / Join); isanc (ancestor directory) is defined by the lemmas of verif_contracts_project.go; sort.Strings / sort.Ints change only the backing array of their argument and leave a permutation of its elements",
	"pure spec functions stand for library results (index (also behind strings.Contains), hasprefix, toslash, abspath, pathdir, pathjoin, statok, statdir, recompile/rematch, globmatch, strwidth, jsonbad, exitcode, issorted, errtext, yhas/ybool/ystr): only the properties stated in govc/calls.go are known about them",
	"obligations of the syntactic disciplines (forbid-call, loop-complete/nobreak/noreturn, format-const, map-order, shared-write, immutable-store, folded / nlfree) are never assumed after being checked; every function has an entry and an end vacuity probe",
}

type evSample struct {
	Obligation string `json:"obligation"`
	Kind       string `json:"kind"`
	Source     string `json:"source"`
	Result     string `json:"result"`
	Solver     string `json:"solver"`
	Goal       string `json:"goal,omitempty"`
}

func writeEvidence(path, prop, tier string, seed int, e *Engine, vcs []*VC, obls []*Obligation, vcOf map[*Obligation]*VC, led *Ledger,
	discharged, nviol int, violNames []string, undecidedNew []*Obligation, vanished []string, kfLines []string, wall time.Duration) {

	inLedger := map[string]bool{}
	for _, n := range led.Discharged {
		inLedger[n] = true
	}
	claimed := 0
	bySolver := map[string]int{}
	byKind := map[string][2]int{}
	fnSet := map[string]bool{}
	var undecided []string
	var samples []evSample
	var solverMs int64
	for _, ob := range obls {
		k := byKind[ob.Kind]
		k[0]++
		if ob.Result == "unsat" {
			k[1]++
		}
		byKind[ob.Kind] = k
		if inLedger[ob.Name] {
			claimed++
			fnSet[ob.Fn] = true
			if ob.Result == "unsat" {
				bySolver[ob.Solver]++
				solverMs += ob.TimeMs
			}
		} else if ob.Result != "unsat" {
			undecided = append(undecided, ob.Name)
		}
	}
	// samples: a spread of kinds
	seenKind := map[string]int{}
	for _, ob := range obls {
		if !inLedger[ob.Name] || seenKind[ob.Kind] >= 2 || len(samples) >= 16 {
			continue
		}
		seenKind[ob.Kind]++
		g := Imp(ob.Guard, ob.Cond)
		if len(g) > 300 {
			g = g[:300] + "..."
		}
		samples = append(samples, evSample{ob.Name, ob.Kind, ob.Pos, ob.Result, ob.Solver, g})
	}
	var fns []string
	for f := range fnSet {
		fns = append(fns, f)
	}
	sort.Strings(fns)
	trusted := map[string]bool{}
	libs := map[string]bool{}
	var abstracted []string
	for _, vc := range vcs {
		if !fnSet[e.fname(vc.fn)] {
			continue
		}
		for t := range vc.usedTrusted {
			trusted[t] = true
		}
		for l := range vc.usedLib {
			libs[l] = true
		}
		if len(vc.unsupported) > 0 {
			abstracted = append(abstracted, e.fname(vc.fn)+": "+strings.Join(uniq(vc.unsupported), "; "))
		}
	}
	tb := []string{"govc translator (SSA->VC)", "z3-5.1.0, z3-4.8.12, cvc5-1.0.3", "go/ssa x/tools v0.29.0"}
	for _, t := range sortedKeys(trusted) {
		tb = append(tb, "trusted contract: "+t)
	}
	for _, l := range sortedKeys(libs) {
		tb = append(tb, "library spec: "+l)
	}
	kinds := map[string]interface{}{}
	for k, v := range byKind {
		kinds[k] = map[string]int{"generated": v[0], "discharged": v[1]}
	}
	var undNew []string
	for _, ob := range undecidedNew {
		undNew = append(undNew, ob.Name)
	}
	if len(undecided) > 60 {
		undecided = append(undecided[:60], fmt.Sprintf("... and %d more", len(undecided)-60))
	}
	assumptions := append([]string{}, globalAssumptions...)
	assumptions = append(assumptions, propAssumptions[prop]...)
	ev := map[string]interface{}{
		"property_id": prop,
		"tier":        tier,
		"seed":        seed,
		"level":       "proof",
		"wall_s":      wall.Seconds(),
		"violations":  nviol,
		"assumptions": assumptions,
		"coverage": map[string]interface{}{
			"obligations":              claimed,
			"discharged":               discharged,
			"checker_cmd":              fmt.Sprintf("bin/govc check -prop %s -tier %s", prop, tier),
			"trusted_base":             tb,
			"functions_under_contract": fns,
			"functions_count":          len(fns),
			"by_kind":                  kinds,
			"by_solver":                bySolver,
			"solver_ms":                solverMs,
			"generated_total":          len(obls),
			"undecided_not_claimed":    undecided,
			"undecided_new":            undNew,
			"vanished_since_ledger":    vanished,
			"violating_obligations":    violNames,
			"known_findings":           kfLines,
			"abstracted_functions":     abstracted,
			"samples":                  samples,
			"explanation":              propExplanation[prop],
			"ledger_commit":            led.Commit,
		},
	}
	if boundedForEvidence != nil {
		ev["coverage"].(map[string]interface{})["bounded_stand_in"] = map[string]interface{}{
			"label":               "bounded: runtime check of the same statement on the real code over an enumerated space; never counted in obligations/discharged",
			"harness":             boundedForEvidence.Harness,
			"bound":               boundedForEvidence.Bound,
			"evaluations":         boundedForEvidence.Cases,
			"distinct_nontrivial": boundedForEvidence.Distinct,
			"failures":            len(boundedForEvidence.Failures),
			"known_findings":      boundedForEvidence.Known,
			"samples":             boundedForEvidence.Samples,
			"wall_s":              boundedForEvidence.WallS,
		}
	}
	data, _ := json.MarshalIndent(ev, "", " ")
	os.WriteFile(path, data, 0o644)
}

func uniq(xs []string) []string {
	seen := map[string]bool{}
	var out []string
	for _, x := range xs {
		if !seen[x] {
			seen[x] = true
			out = append(out, x)
		}
	}
	return out
}

func sortedKeys(m map[string]bool) []string {
	var out []string
	for k := range m {
		out = append(out, k)
	}
	sort.Strings(out)
	return out
}

var propAssumptions = map[string][]string{}
var propExplanation = map[string]string{}
