package main

import (
	"fmt"
	"os"
	"strings"
	"time"
)

// cmdReplay re-runs the obligation recorded in a replay file against the current tree.
func cmdReplay(args []string) {
	if len(args) < 1 {
		fmt.Fprintln(os.Stderr, "usage: govc replay <file>")
		os.Exit(2)
	}
	data, err := os.ReadFile(args[0])
	if err != nil {
		fmt.Fprintln(os.Stderr, err)
		os.Exit(2)
	}
	fmt.Print(string(data))
	var fn, obName string
	for _, l := range strings.Split(string(data), "\n") {
		if strings.HasPrefix(l, "function: ") {
			fn = strings.TrimPrefix(l, "function: ")
		}
		if strings.HasPrefix(l, "obligation: ") {
			obName = strings.TrimPrefix(l, "obligation: ")
		}
	}
	if fn == "" || obName == "" {
		os.Exit(1)
	}
	repo := "/repo"
	if len(args) > 1 {
		repo = args[1]
	}
	if i := strings.Index(string(data), "--- BEGIN GO TEST"); i >= 0 {
		src := string(data)[i:]
		src = src[strings.Index(src, "\n")+1:]
		if j := strings.Index(src, "--- END GO TEST ---"); j >= 0 {
			src = src[:j]
			out, _ := runOverlayTest(repo, "zz_govc_cex_test.go", src, "^TestGovcCex$", 90*time.Second)
			fmt.Printf("\n--- the Go test above re-run on the current tree of %s ---\n%s\n", repo, out)
		}
	}
	e, err := loadEngine(repo)
	if err != nil {
		fmt.Fprintln(os.Stderr, err)
		os.Exit(2)
	}
	f := e.funcs[fn]
	if f == nil {
		fmt.Printf("\n--- replay: function %s does not exist in the current tree\n", fn)
		os.Exit(1)
	}
	// all VCs must be generated in the usual order so that type tags agree with the check run
	var target *VC
	for _, vc := range generateAll(e) {
		if vc.fn == f {
			target = vc
		}
	}
	for _, ob := range target.obls {
		if ob.Name == obName {
			target.retry(ob, 20000)
			fmt.Printf("\n--- replay on current tree: %s => %s (%s)\n", ob.Name, ob.Result, ob.Solver)
			if ob.Result == "unsat" {
				fmt.Println("the obligation is discharged on the current tree")
				os.Exit(0)
			}
			if ob.Model != "" {
				fmt.Println("counterexample model:")
				fmt.Print(filterModel(ob.Model))
			}
			os.Exit(1)
		}
	}
	fmt.Printf("\n--- replay: obligation %s is not generated on the current tree\n", obName)
	os.Exit(1)
}
