package main

// Property C12: the contract of WorkflowKeyAvailability is generated on every run from the copy of
// GitHub's "Context availability" table shipped in the repository
// (scripts/generate-availability/testdata/ok.md), so the Go table is compared with the page.

import (
	"fmt"
	"os"
	"path/filepath"
	"sort"
	"strings"
)

type availRow struct {
	key      string
	contexts []string
	specials []string
}

func parseAvailabilityTable(path string) ([]availRow, error) {
	data, err := os.ReadFile(path)
	if err != nil {
		return nil, err
	}
	var rows []availRow
	in := false
	for _, l := range strings.Split(string(data), "\n") {
		l = strings.TrimSpace(l)
		if strings.HasPrefix(l, "| Workflow key") {
			in = true
			continue
		}
		if !in {
			continue
		}
		if !strings.HasPrefix(l, "|") {
			if len(rows) > 0 {
				break
			}
			continue
		}
		cells := strings.Split(strings.Trim(l, "|"), "|")
		if len(cells) < 3 || strings.HasPrefix(strings.TrimSpace(cells[0]), "--") {
			continue
		}
		clean := func(s string) []string {
			s = strings.Trim(strings.TrimSpace(s), "`")
			if strings.EqualFold(s, "None") || s == "" {
				return nil
			}
			var out []string
			for _, x := range strings.Split(s, ",") {
				x = strings.ToLower(strings.Trim(strings.TrimSpace(x), "`"))
				if x != "" {
					out = append(out, x)
				}
			}
			sort.Strings(out)
			return out
		}
		rows = append(rows, availRow{key: strings.Trim(strings.TrimSpace(cells[0]), "`"), contexts: clean(cells[1]), specials: clean(cells[2])})
	}
	if len(rows) == 0 {
		return nil, fmt.Errorf("no availability table found in %s", path)
	}
	return rows, nil
}

// addAvailabilityContract installs the generated contract (if the page copy exists).
func (e *Engine) addAvailabilityContract() {
	path := filepath.Join(e.repoDir, "scripts", "generate-availability", "testdata", "ok.md")
	rows, err := parseAvailabilityTable(path)
	if err != nil {
		return
	}
	name := "WorkflowKeyAvailability"
	con := e.cs.Funcs[name]
	if con == nil {
		con = &Contract{Fn: name}
		e.cs.Funcs[name] = con
	}
	con.Props = []string{"C12"}
	con.Anchor = true
	setEq := func(res string, want []string) string {
		parts := []string{fmt.Sprintf("len(%s) == %d", res, len(want))}
		for _, w := range want {
			var alts []string
			for j := range want {
				alts = append(alts, fmt.Sprintf("%s[%d] == %q", res, j, w))
			}
			parts = append(parts, "("+strings.Join(alts, " || ")+")")
		}
		return strings.Join(parts, " && ")
	}
	var keys []string
	for _, r := range rows {
		txt := fmt.Sprintf("key == %q ==> (%s) && (%s)", r.key, setEq("result0", r.contexts), setEq("result1", r.specials))
		ex, err := parseCExpr(txt)
		if err != nil {
			continue
		}
		con.Ensures = append(con.Ensures, &Clause{Kind: "ensures", Expr: ex, Text: fmt.Sprintf("table row %s (from ok.md)", r.key), Props: []string{"C12"}})
		keys = append(keys, fmt.Sprintf("key == %q", r.key))
	}
	txt := "!(" + strings.Join(keys, " || ") + ") ==> len(result0) == 0 && len(result1) == 0"
	if ex, err := parseCExpr(txt); err == nil {
		con.Ensures = append(con.Ensures, &Clause{Kind: "ensures", Expr: ex, Text: "keys absent from the table have no entry", Props: []string{"C12"}})
	}
}
