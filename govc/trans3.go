package main

import (
	"fmt"
	"go/token"
	"go/types"
	"strings"

	"golang.org/x/tools/go/ssa"
)

func (vc *VC) setVal(v ssa.Value, t Term) {
	// name every value with a constant to keep terms small and models readable
	srt := vc.e.sortOf(v.Type())
	n := sym(fmt.Sprintf("%s!b%d", v.Name(), vc.blk.Index))
	if vc.declared[n] {
		n = vc.fresh(v.Name(), srt)
	} else {
		vc.declare(n, srt)
	}
	vc.fact(Eq(n, t))
	vc.val[v] = n
}

func (vc *VC) havocVal(v ssa.Value) Term {
	srt := vc.e.sortOf(v.Type())
	n := vc.fresh(v.Name(), srt)
	vc.val[v] = n
	vc.gfact(vc.typeFacts(n, v.Type()))
	return n
}

func (vc *VC) nonNilKeyField(structType types.Type, fld int) string {
	st := structType.Underlying().(*types.Struct)
	return vc.e.typeName(structType) + "." + st.Field(fld).Name()
}

func (vc *VC) instr(ins ssa.Instruction) {
	sp := vc.safetyProps()
	switch x := ins.(type) {
	case *ssa.DebugRef:
		return
	case *ssa.Alloc:
		t := deref(x.Type())
		a := vc.allocRef(x.Name())
		vc.val[x] = a
		if isStruct(t) {
			vc.zeroStructAt(a, t)
			vc.zeroBuilders(a, t, 0)
		} else if at, ok := t.Underlying().(*types.Array); ok {
			n, s := vc.e.elemArr(at.Elem())
			vc.setArr(n, s, Sto(vc.arrCur(n, s), a, "((as const (Array Int "+vc.e.sortOf(at.Elem())+")) "+vc.e.zeroOf(at.Elem())+")"))
		} else {
			n, s := vc.e.cellArr(t)
			vc.setArr(n, s, Sto(vc.arrCur(n, s), a, vc.e.zeroOf(t)))
		}
	case *ssa.FieldAddr:
		vc.fieldAddr(x)
	case *ssa.Field:
		s := vc.e.structSort(x.X.Type())
		si := vc.e.structs[s]
		vc.setVal(x, sx(si.accs[x.Field], vc.v(x.X)))
		if vc.e.cs.NonNilField[vc.nonNilKeyField(x.X.Type(), x.Field)] && canBeNil(x.Type()) {
			vc.gfact(Not(vc.isNil(vc.val[x], x.Type())))
		}
		if vc.e.cs.FoldedField[vc.nonNilKeyField(x.X.Type(), x.Field)] {
			vc.gfact(sx("folded", vc.val[x]))
		}
	case *ssa.IndexAddr:
		vc.indexAddr(x)
	case *ssa.Index:
		// array value or string (go1.18+: Index on string typed params in generics) - handle arrays
		switch u := x.X.Type().Underlying().(type) {
		case *types.Array:
			vc.check("bounds", x.Pos(), "", And(Ge(vc.v(x.Index), "0"), Lt(vc.v(x.Index), IntLit(u.Len()))), sp)
			vc.setVal(x, Sel(vc.v(x.X), vc.v(x.Index)))
		default:
			vc.check("bounds", x.Pos(), "", And(Ge(vc.v(x.Index), "0"), Lt(vc.v(x.Index), sx("slen", vc.v(x.X)))), sp)
			vc.setVal(x, sx("sat", vc.v(x.X), vc.v(x.Index)))
		}
	case *ssa.Lookup:
		vc.lookup(x)
	case *ssa.UnOp:
		vc.unop(x)
	case *ssa.Store:
		vc.store(x)
	case *ssa.BinOp:
		vc.binop(x)
	case *ssa.Phi:
		if _, done := vc.val[x]; done {
			return // loop header phi, already havoced
		}
		n := vc.fresh("phi:"+x.Comment, vc.e.sortOf(x.Type()))
		vc.val[x] = n
		for j, p := range vc.blk.Preds {
			e, ok := vc.edges[[2]int{p.Index, vc.blk.Index}]
			if !ok {
				continue
			}
			vc.fact(Imp(e, Eq(n, vc.v(x.Edges[j]))))
		}
	case *ssa.Call:
		vc.call(x)
	case *ssa.ChangeType:
		vc.val[x] = vc.v(x.X)
	case *ssa.Convert:
		vc.convert(x)
	case *ssa.MakeInterface:
		vc.setVal(x, sx("mk_iface", IntLit(int64(vc.e.tagOf(x.X.Type()))), vc.box(vc.v(x.X), x.X.Type())))
		if _, isPtr := x.X.Type().Underlying().(*types.Pointer); isPtr && vc.e.cs.NonNilBoxed[vc.e.typeName(x.X.Type())] {
			vc.check("typed-nil", x.Pos(), vc.e.typeName(x.X.Type())+" boxed: "+vc.exprText(x.Pos()), Ne(vc.v(x.X), "0"), sp)
		}
	case *ssa.ChangeInterface:
		vc.val[x] = vc.v(x.X)
	case *ssa.TypeAssert:
		vc.typeAssert(x)
	case *ssa.Extract:
		if tp, ok := vc.tuple[x.Tuple]; ok && x.Index < len(tp) {
			vc.val[x] = tp[x.Index]
		} else {
			vc.havocVal(x)
			vc.unsupp("extract from unknown tuple")
		}
	case *ssa.MakeSlice:
		et := x.Type().Underlying().(*types.Slice).Elem()
		ln, cp := vc.v(x.Len), vc.v(x.Cap)
		vc.check("makeslice", x.Pos(), "", And(Ge(ln, "0"), Ge(cp, ln)), sp)
		a := vc.allocRef(x.Name())
		n, s := vc.e.elemArr(et)
		vc.setArr(n, s, Sto(vc.arrCur(n, s), a, "((as const (Array Int "+vc.e.sortOf(et)+")) "+vc.e.zeroOf(et)+")"))
		vc.setVal(x, sx("mk_slice", a, "0", ln, cp))
		if vc.e.cs.NonNilElem[vc.e.typeName(x.Type())] {
			if ob := vc.check("nonnil-elems", x.Pos(), "", Eq(ln, "0"), sp); ob != nil {
				ob.Detail = vc.e.typeName(x.Type())
			}
		}
		if isStruct(et) {
			st := et.Underlying().(*types.Struct)
			for i := 0; i < st.NumFields(); i++ {
				if k := vc.nonNilKeyField(et, i); vc.e.cs.NonNilField[k] {
					if ob := vc.check("nonnil-elems", x.Pos(), k+" of zero elements", Eq(ln, "0"), sp); ob != nil {
						ob.Detail = k
					}
				}
			}
		}
	case *ssa.MakeMap:
		mt := x.Type().Underlying().(*types.Map)
		a := vc.allocRef(x.Name())
		d, v, ds, vs := vc.e.mapArrs(mt)
		ks := vc.e.sortOf(mt.Key())
		vc.setArr(d, ds, Sto(vc.arrCur(d, ds), a, "((as const (Array "+ks+" Bool)) false)"))
		_ = v
		_ = vs
		vc.val[x] = a
	case *ssa.MakeClosure:
		a := vc.allocRef(x.Name())
		vc.val[x] = a
		// captured cells escape into the closure (cells live in C arrays). A closure under contract has
		// its preconditions checked where it is created: the captured variables are per-iteration
		// variables that are not assigned afterwards, and the library runs the closure later.
		if fn, ok := x.Fn.(*ssa.Function); ok {
			if con := vc.e.cs.Funcs[vc.e.fname(fn)]; con != nil && len(con.Requires) > 0 {
				ce := &cenv{vc: vc, vars: map[string]cval{}, heap: vc.cur, old: vc.cur, allocOld: vc.cur.alloc}
				for i, fv := range fn.FreeVars {
					if i >= len(x.Bindings) {
						break
					}
					b := x.Bindings[i]
					et := deref(fv.Type())
					if isStruct(et) {
						ce.vars[fv.Name()] = cval{t: vc.v(b), typ: et, atRef: true}
					} else {
						n, s := vc.e.cellArr(et)
						ce.vars[fv.Name()] = cval{t: Sel(vc.arrCur(n, s), vc.v(b)), typ: et}
					}
				}
				props := con.Props
				if len(props) == 0 {
					props = sp
				}
				for _, r := range con.Requires {
					if r.Auto {
						continue
					}
					ce.err = nil
					t := ce.eval(r.Expr)
					if ce.err != nil {
						vc.unsupp("closure requires %q: %v", r.Text, ce.err)
						continue
					}
					pr := props
					if len(r.Props) > 0 {
						pr = r.Props
					}
					vc.check("requires", x.Pos(), con.Fn+": "+r.Text, t.t, pr)
				}
			}
		}
	case *ssa.MapUpdate:
		vc.mapUpdate(x)
	case *ssa.Range:
		switch u := x.X.Type().Underlying().(type) {
		case *types.Map:
			n := vc.iterName(x)
			s := "(Array " + vc.e.sortOf(u.Key()) + " Bool)"
			vc.arrCur(n, s)
			vc.setArr(n, s, "((as const "+s+") false)")
		default:
			n := vc.iterName(x)
			vc.arrCur(n, SInt)
			vc.setArr(n, SInt, "0")
		}
		vc.val[x] = "0"
	case *ssa.Next:
		vc.next(x)
	case *ssa.Slice:
		vc.slice(x)
	case *ssa.If:
		c := vc.v(x.Cond)
		b := vc.blk
		vc.setEdge(b, b.Succs[0], And(vc.rb, c))
		vc.setEdge(b, b.Succs[1], And(vc.rb, Not(c)))
	case *ssa.Jump:
		vc.setEdge(vc.blk, vc.blk.Succs[0], vc.rb)
	case *ssa.Return:
		vc.ret(x)
	case *ssa.Panic:
		vc.check("panic", x.Pos(), "", "false", sp)
	case *ssa.Defer:
		vc.deferred = append(vc.deferred, x)
	case *ssa.RunDefers:
		for i := len(vc.deferred) - 1; i >= 0; i-- {
			d := vc.deferred[i]
			if !d.Block().Dominates(vc.blk) {
				vc.unsupp("conditional defer")
				vc.havoc(&ModSet{All: true})
				continue
			}
			vc.call(d)
		}
	case *ssa.Go:
		vc.unsupp("go statement")
		vc.havoc(&ModSet{All: true})
	case *ssa.Send, *ssa.Select, *ssa.MakeChan:
		vc.unsupp("channel operation")
		if v, ok := ins.(ssa.Value); ok {
			vc.havocVal(v)
		}
	default:
		vc.unsupp("instruction %T", ins)
		if v, ok := ins.(ssa.Value); ok {
			vc.havocVal(v)
		}
	}
}

func (vc *VC) setEdge(from, to *ssa.BasicBlock, cond Term) {
	key := [2]int{from.Index, to.Index}
	if old, ok := vc.edges[key]; ok {
		cond = Or(old, cond)
	}
	vc.edges[key] = cond
	if vc.backEdge[key] {
		// emitted once per back edge: both successors equal is impossible for an If with a back edge in practice
		vc.hout[from.Index] = vc.cur
		vc.backEdgeChecks(to, cond)
	}
}

func (vc *VC) box(t Term, ty types.Type) Term {
	switch vc.e.sortOf(ty) {
	case SInt:
		return t
	case SStr:
		b := sx("box_str", t)
		vc.once(Eq(sx("unbox_str", b), t))
		return b
	case SBool:
		b := sx("box_bool", t)
		vc.once(Eq(sx("unbox_bool", b), t))
		return b
	case SFlt:
		b := sx("box_flt", t)
		vc.once(Eq(sx("unbox_flt", b), t))
		return b
	case SSlice:
		b := sx("box_slice", t)
		vc.once(Eq(sx("unbox_slice", b), t))
		return b
	case SIface:
		return sx("i_val", t)
	default:
		s := vc.e.sortOf(ty)
		bn, un := sym("box:"+s), sym("unbox:"+s)
		vc.declareFun(bn, []string{s}, "Int")
		vc.declareFun(un, []string{"Int"}, s)
		b := sx(bn, t)
		vc.once(Eq(sx(un, b), t))
		return b
	}
}

func (vc *VC) unbox(t Term, ty types.Type) Term {
	switch vc.e.sortOf(ty) {
	case SInt:
		return t
	case SStr:
		return sx("unbox_str", t)
	case SBool:
		return sx("unbox_bool", t)
	case SFlt:
		return sx("unbox_flt", t)
	case SSlice:
		return sx("unbox_slice", t)
	default:
		s := vc.e.sortOf(ty)
		bn, un := sym("box:"+s), sym("unbox:"+s)
		vc.declareFun(bn, []string{s}, "Int")
		vc.declareFun(un, []string{"Int"}, s)
		return sx(un, t)
	}
}

func (vc *VC) fieldAddr(x *ssa.FieldAddr) {
	sp := vc.safetyProps()
	st := deref(x.X.Type())
	ft := st.Underlying().(*types.Struct).Field(x.Field).Type()
	if base, ok := vc.lv[x.X]; ok && base.arr != "" {
		// field of a struct stored by value (slice element, cell)
		s := vc.e.structSort(st)
		nl := &LV{arr: base.arr, sort: base.sort, idx: base.idx, typ: ft, fresh: base.fresh}
		nl.path = append(append([]lvStep{}, base.path...), lvStep{vc.e.structs[s], x.Field})
		nl.nnKey = vc.nonNilKeyField(st, x.Field)
		vc.lv[x] = nl
		vc.val[x] = "0"
		return
	}
	b := vc.v(x.X)
	vc.check("nil", x.Pos(), "", Ne(b, "0"), sp)
	if isStruct(ft) {
		p := vc.embPtr(st, x.Field, b)
		vc.val[x] = p
		return
	}
	n, s, _ := vc.e.fieldArr(st, x.Field)
	_, isLocal := x.X.(*ssa.Alloc)
	vc.lv[x] = &LV{arr: n, sort: s, idx: []Term{b}, typ: ft, nnKey: vc.nonNilKeyField(st, x.Field), fresh: isLocal}
	if !vc.addrOnly[x] {
		// the address escapes as a value: give it a symbolic pointer
		fa := sym("faddr:" + n)
		vc.declareFun(fa, []string{"Int"}, "Int")
		vc.val[x] = sx(fa, b)
	} else {
		vc.val[x] = "0"
	}
}

func (vc *VC) indexAddr(x *ssa.IndexAddr) {
	sp := vc.safetyProps()
	i := vc.v(x.Index)
	switch u := x.X.Type().Underlying().(type) {
	case *types.Slice:
		s := vc.v(x.X)
		vc.check("bounds", x.Pos(), "", And(Ge(i, "0"), Lt(i, sx("s_len", s))), sp)
		n, srt := vc.e.elemArr(u.Elem())
		vc.lv[x] = &LV{arr: n, sort: srt, idx: []Term{sx("s_arr", s), Add(sx("s_off", s), i)}, typ: u.Elem(), nnKey: vc.e.typeName(x.X.Type()), elemOf: vc.fromField[x.X]}
		// make the element known as elt(E, s, i) too: this is the trigger of quantified contracts
		vc.once(Eq(vc.eltTerm(u.Elem(), vc.arrCur(n, srt), s, i), Sel(Sel(vc.arrCur(n, srt), sx("s_arr", s)), Add(sx("s_off", s), i))))
	case *types.Pointer:
		at := u.Elem().Underlying().(*types.Array)
		p := vc.v(x.X)
		vc.check("nil", x.Pos(), "", Ne(p, "0"), sp)
		vc.check("bounds", x.Pos(), "", And(Ge(i, "0"), Lt(i, IntLit(at.Len()))), sp)
		n, srt := vc.e.elemArr(at.Elem())
		vc.lv[x] = &LV{arr: n, sort: srt, idx: []Term{p, i}, typ: at.Elem()}
	default:
		vc.unsupp("IndexAddr on %s", x.X.Type())
	}
	vc.val[x] = "0"
	if !vc.addrOnly[x] {
		vc.unsupp("address of element escapes: %s", vc.exprText(x.Pos()))
		vc.val[x] = vc.fresh("elemaddr", SInt)
	}
}

func (vc *VC) nonNilLoadFact(l *LV, v Term) {
	// invariants are not assumed for objects allocated in this function (they may not be initialised yet)
	if l.nnKey == "" || l.fresh {
		return
	}
	if vc.e.cs.NonNilField[l.nnKey] || vc.e.cs.NonNilElem[l.nnKey] {
		vc.gfact(Not(vc.isNil(v, l.typ)))
	}
}

func (vc *VC) unop(x *ssa.UnOp) {
	switch x.Op {
	case token.MUL:
		if l, ok := vc.lv[x.X]; ok {
			t := vc.readLV(l)
			vc.setVal(x, t)
			vc.gfact(vc.typeFacts(vc.val[x], x.Type()))
			vc.nonNilLoadFact(l, vc.val[x])
			vc.loadFacts(x, l)
			if l.nnKey != "" && !l.fresh && len(l.idx) == 1 {
				vc.fromField[x] = l.nnKey
			}
			return
		}
		if g, ok := x.X.(*ssa.Global); ok {
			n, s := vc.e.globalArr(g)
			vc.setVal(x, vc.arrCur(n, s))
			vc.gfact(vc.typeFacts(vc.val[x], x.Type()))
			if vc.e.cs.NonNilField[g.Name()] {
				vc.gfact(Not(vc.isNil(vc.val[x], x.Type())))
			}
			return
		}
		p := vc.v(x.X)
		vc.check("nil", x.Pos(), "", Ne(p, "0"), vc.safetyProps())
		t := deref(x.X.Type())
		if isStruct(t) {
			vc.setVal(x, vc.structAt(vc.cur, p, t))
		} else {
			n, s := vc.e.cellArr(t)
			vc.setVal(x, Sel(vc.arrCur(n, s), p))
		}
		vc.gfact(vc.typeFacts(vc.val[x], x.Type()))
	case token.NOT:
		vc.setVal(x, Not(vc.v(x.X)))
	case token.SUB:
		if vc.e.sortOf(x.Type()) == SFlt {
			vc.setVal(x, sx("flt_neg", vc.v(x.X)))
		} else {
			vc.setVal(x, sx("-", vc.v(x.X)))
		}
	case token.XOR:
		vc.setVal(x, sx("bv_not", vc.v(x.X)))
	case token.ARROW:
		vc.unsupp("channel receive")
		vc.havocVal(x)
	default:
		vc.unsupp("unop %s", x.Op)
		vc.havocVal(x)
	}
}

// loadFacts: string qualifier disciplines assumed at loads
func (vc *VC) loadFacts(x ssa.Value, l *LV) {
	if l.fresh {
		return
	}
	if l.elemOf != "" && vc.e.cs.FoldedElems[l.elemOf] {
		vc.gfact(sx("folded", vc.val[x]))
	}
	if l.nnKey != "" && vc.e.cs.FoldedField[l.nnKey] {
		vc.gfact(sx("folded", vc.val[x]))
	}
	if l.nnKey != "" && vc.e.cs.NlfreeField[l.nnKey] {
		vc.gfact(sx("nlfree", vc.val[x]))
	}
}

func (vc *VC) store(x *ssa.Store) {
	sp := vc.safetyProps()
	v := vc.v(x.Val)
	vc.sharedWriteCheck(x.Pos(), x.Addr)
	if l, ok := vc.lv[x.Addr]; ok {
		if l.nnKey != "" && (vc.e.cs.NonNilField[l.nnKey] || vc.e.cs.NonNilElem[l.nnKey]) && canBeNil(l.typ) {
			if ob := vc.check("nonnil-store", x.Pos(), "", Not(vc.isNil(v, l.typ)), append(append([]string{}, sp...), vc.e.cs.NonNilFieldProps[l.nnKey]...)); ob != nil {
				ob.Detail = l.nnKey
			}
		}
		vc.disciplineStore(x, l, v)
		vc.atStoreCheck(x, l, v)
		vc.writeLV(l, v)
		return
	}
	if g, ok := x.Addr.(*ssa.Global); ok {
		n, s := vc.e.globalArr(g)
		vc.arrCur(n, s)
		vc.setArr(n, s, v)
		return
	}
	p := vc.v(x.Addr)
	vc.check("nil", x.Pos(), "", Ne(p, "0"), sp)
	t := deref(x.Addr.Type())
	if isStruct(t) {
		vc.storeStructAt(p, t, v)
	} else {
		n, s := vc.e.cellArr(t)
		vc.setArr(n, s, Sto(vc.arrCur(n, s), p, v))
	}
}

// The text accumulated in a strings.Builder / bytes.Buffer is summarised by one ghost bit per builder
// object: GB:hasnl[addr] - "the content has a line break" (C16). A fresh builder is empty.
const builderArr, builderSort = "GB:hasnl", "(Array Int Bool)"

// GB:len[addr]: the number of bytes accumulated in the builder (C20: placeholders keep offsets valid)
const builderLenArr, builderLenSort = "GB:len", "(Array Int Int)"

func isBuilderType(t types.Type) bool {
	if nt, ok := t.(*types.Named); ok && nt.Obj().Pkg() != nil {
		q := nt.Obj().Pkg().Path() + "." + nt.Obj().Name()
		return q == "strings.Builder" || q == "bytes.Buffer"
	}
	return false
}

func (vc *VC) zeroBuilders(ref Term, t types.Type, depth int) {
	if depth > 4 {
		return
	}
	if isBuilderType(t) {
		vc.setArr(builderArr, builderSort, Sto(vc.arrCur(builderArr, builderSort), ref, "false"))
		vc.setArr(builderLenArr, builderLenSort, Sto(vc.arrCur(builderLenArr, builderLenSort), ref, "0"))
		return
	}
	st, ok := t.Underlying().(*types.Struct)
	if !ok {
		return
	}
	for i := 0; i < st.NumFields(); i++ {
		if isStruct(st.Field(i).Type()) {
			vc.zeroBuilders(vc.embPtr(t, i, ref), st.Field(i).Type(), depth+1)
		}
	}
}

// atStoreCheck: `at_store T.f: COND` clauses of the enclosing loop and of the function. COND is evaluated
// in the state before the store, with `value` bound to the stored value.
func (vc *VC) atStoreCheck(x *ssa.Store, l *LV, v Term) {
	if l.nnKey == "" || vc.con == nil {
		return
	}
	var owner Term
	if len(l.idx) > 0 {
		owner = l.idx[0]
	}
	vc.atStoreClauses(l.nnKey, x.Pos(), v, l.typ, owner, nil)
}

// fieldOfMap: the map operand is the content of a field x.f: returns "T.f" and x
func (vc *VC) fieldOfMap(m ssa.Value) (string, ssa.Value) {
	u, ok := m.(*ssa.UnOp)
	if !ok || u.Op != token.MUL {
		return "", nil
	}
	fa, ok := u.X.(*ssa.FieldAddr)
	if !ok {
		return "", nil
	}
	pt, ok := fa.X.Type().Underlying().(*types.Pointer)
	if !ok {
		return "", nil
	}
	st, ok := pt.Elem().Underlying().(*types.Struct)
	if !ok {
		return "", nil
	}
	return vc.e.typeName(pt.Elem()) + "." + st.Field(fa.Field).Name(), fa.X
}

// atStoreClauses: `at_store T.f: COND` clauses of the enclosing loop and of the function. COND is evaluated in
// the state before the store with `value` bound to the stored value (for a deletion from a map: absent) and
// `owner` to the object whose field (or whose field's map) is written.
func (vc *VC) atStoreClauses(key string, pos token.Pos, v Term, vt types.Type, owner Term, ownerType types.Type) {
	if vc.con == nil {
		return
	}
	var acs []*BodyCall
	where := ""
	lh := vc.innermostLoop(vc.blk.Index)
	if lh < 0 {
		lh = vc.srcLoopAt(pos)
	}
	if lh >= 0 {
		if ls := vc.loopSpecs[lh]; ls != nil {
			acs = append(acs, ls.AtCalls...)
			where = "loop " + ls.Key + ": "
		}
	}
	nLoop := len(acs)
	acs = append(acs, vc.con.AtCalls...)
	for i, ac := range acs {
		if ac.Fn != "store:"+key {
			continue
		}
		vc.evalPos = pos
		ce := vc.envAt(vc.blk, vc.cur, nil)
		vc.evalPos = token.NoPos
		if lh >= 0 {
			for _, hb := range vc.fn.Blocks {
				if hb.Index == lh {
					hce := vc.envAt(hb, vc.cur, nil)
					if rx, ok := hce.vars["range_x"]; ok {
						ce.vars["range_x"] = rx
					}
					vc.iterationNames(hb, ce)
				}
			}
		}
		if v != "" {
			ce.vars["value"] = cval{t: v, typ: vt}
		}
		if owner != "" {
			ce.vars["owner"] = cval{t: owner, typ: ownerType}
		}
		t := ce.evalTop(ac.Req, true)
		if ce.err != nil {
			vc.unsupp("at_store %q: %v", ac.Text, ce.err)
			continue
		}
		pr := ac.Props
		if len(pr) == 0 {
			pr = vc.con.Props
		}
		w := where
		if i >= nLoop {
			w = ""
		}
		vc.check("at-store", pos, w+ac.Text, t.t, pr)
	}
}

func (vc *VC) disciplineStore(x *ssa.Store, l *LV, v Term) {
	if props, ok := vc.e.cs.ImmutableField[l.nnKey]; ok && l.nnKey != "" && len(l.idx) == 1 && !interiorOfLocal(x.Addr) {
		// objects of this kind are shared between checks: only their creator may initialise them
		if len(props) == 0 {
			props = []string{"C09"}
		}
		vc.check("immutable-store", x.Pos(), l.nnKey+" = "+vc.exprText(x.Pos()), Gt(l.idx[0], "alloc!0"), props)
	}
	if l.nnKey != "" && vc.e.cs.FoldedElems[l.nnKey] {
		if st, ok := l.typ.Underlying().(*types.Slice); ok {
			en, es := vc.e.elemArr(st.Elem())
			E := vc.arrCur(en, es)
			q := fmt.Sprintf("(forall ((j Int)) (=> (and (<= 0 j) (< j (s_len %s))) (folded %s)))", v, vc.eltTerm(st.Elem(), E, v, "j"))
			if ob := vc.check("folded-elems", x.Pos(), l.nnKey+" = "+vc.exprText(x.Pos()), q, append([]string{"C08"}, vc.e.cs.FoldedKeyProps["elems:"+l.nnKey]...)); ob != nil {
				ob.Detail = l.nnKey
			}
		}
	}
	if l.nnKey != "" && vc.e.cs.FoldedField[l.nnKey] {
		if ob := vc.check("folded-store", x.Pos(), l.nnKey+" = "+vc.exprText(x.Pos()), sx("folded", v), []string{"C08"}); ob != nil {
			ob.Detail = l.nnKey
		}
	}
	if l.nnKey != "" && vc.e.cs.NlfreeField[l.nnKey] {
		if ob := vc.check("nlfree-store", x.Pos(), l.nnKey+" = "+vc.exprText(x.Pos()), sx("nlfree", v), []string{"C16"}); ob != nil {
			ob.Detail = l.nnKey
		}
	}
}

func (vc *VC) binop(x *ssa.BinOp) {
	a, b := vc.v(x.X), vc.v(x.Y)
	xs := vc.e.sortOf(x.X.Type())
	sp := vc.safetyProps()
	isUnsigned := func() bool {
		bt, ok := x.Type().Underlying().(*types.Basic)
		return ok && bt.Info()&types.IsUnsigned != 0
	}
	switch x.Op {
	case token.ADD:
		switch xs {
		case SStr:
			t := sx("sconcat", a, b)
			vc.setVal(x, t)
			vc.gfact(Eq(sx("slen", vc.val[x]), Add(sx("slen", a), sx("slen", b))))
			vc.gfact(Eq(sx("nlfree", vc.val[x]), And(sx("nlfree", a), sx("nlfree", b))))
		case SFlt:
			vc.setVal(x, sx("flt_add", a, b))
		default:
			vc.setVal(x, Add(a, b))
		}
	case token.SUB:
		if xs == SFlt {
			vc.setVal(x, sx("flt_sub", a, b))
		} else {
			vc.setVal(x, Sub(a, b))
			if isUnsigned() {
				vc.notes = append(vc.notes, "unsigned subtraction modelled mathematically")
			}
		}
	case token.MUL:
		if xs == SFlt {
			vc.setVal(x, sx("flt_mul", a, b))
		} else if _, ok := x.X.(*ssa.Const); ok {
			vc.setVal(x, sx("*", a, b))
		} else if _, ok := x.Y.(*ssa.Const); ok {
			vc.setVal(x, sx("*", a, b))
		} else {
			vc.setVal(x, sx("nl_mul", a, b))
		}
	case token.QUO:
		if xs == SFlt {
			vc.setVal(x, sx("flt_div", a, b))
		} else {
			vc.check("div-zero", x.Pos(), "", Ne(b, "0"), sp)
			if _, ok := x.Y.(*ssa.Const); ok {
				vc.setVal(x, sx("go_div", a, b))
			} else {
				vc.setVal(x, sx("nl_div", a, b))
			}
		}
	case token.REM:
		vc.check("div-zero", x.Pos(), "", Ne(b, "0"), sp)
		if _, ok := x.Y.(*ssa.Const); ok {
			vc.setVal(x, Sub(a, sx("*", b, sx("go_div", a, b))))
		} else {
			vc.setVal(x, sx("nl_rem", a, b))
		}
	case token.AND:
		vc.setVal(x, sx("bv_and", a, b))
		vc.gfact(Imp(And(Ge(a, "0"), Ge(b, "0")), And(Ge(vc.val[x], "0"), Le(vc.val[x], a), Le(vc.val[x], b))))
	case token.OR:
		vc.setVal(x, sx("bv_or", a, b))
	case token.XOR:
		vc.setVal(x, sx("bv_xor", a, b))
	case token.SHL:
		vc.setVal(x, sx("bv_shl", a, b))
	case token.SHR:
		vc.setVal(x, sx("bv_shr", a, b))
		vc.gfact(Imp(Ge(a, "0"), And(Ge(vc.val[x], "0"), Le(vc.val[x], a))))
	case token.AND_NOT:
		vc.setVal(x, sx("bv_andnot", a, b))
	case token.EQL, token.NEQ:
		var t Term
		switch {
		case xs == SIface || vc.e.sortOf(x.Y.Type()) == SIface:
			t = Eq(a, b)
		case xs == SSlice:
			// only comparison with nil is legal
			if isNilConst(x.Y) {
				t = Eq(sx("s_arr", a), "0")
			} else {
				t = Eq(sx("s_arr", b), "0")
			}
		default:
			t = Eq(a, b)
		}
		if x.Op == token.NEQ {
			t = Not(t)
		}
		vc.setVal(x, t)
	case token.LSS, token.LEQ, token.GTR, token.GEQ:
		var t Term
		switch xs {
		case SStr:
			switch x.Op {
			case token.LSS:
				t = sx("str_lt", a, b)
			case token.GTR:
				t = sx("str_lt", b, a)
			case token.LEQ:
				t = Not(sx("str_lt", b, a))
			case token.GEQ:
				t = Not(sx("str_lt", a, b))
			}
			vc.once(Not(sx("str_lt", a, a)))
			vc.once(Not(sx("str_lt", b, b)))
			vc.once(Not(And(sx("str_lt", a, b), sx("str_lt", b, a))))
			vc.once(Or(sx("str_lt", a, b), sx("str_lt", b, a), Eq(a, b)))
		case SFlt:
			switch x.Op {
			case token.LSS:
				t = sx("flt_lt", a, b)
			case token.GTR:
				t = sx("flt_lt", b, a)
			case token.LEQ:
				t = sx("flt_le", a, b)
			case token.GEQ:
				t = sx("flt_le", b, a)
			}
		default:
			t = sx(map[token.Token]string{token.LSS: "<", token.LEQ: "<=", token.GTR: ">", token.GEQ: ">="}[x.Op], a, b)
		}
		vc.setVal(x, t)
	default:
		vc.unsupp("binop %s", x.Op)
		vc.havocVal(x)
	}
}

func isNilConst(v ssa.Value) bool {
	c, ok := v.(*ssa.Const)
	return ok && c.Value == nil
}

func (vc *VC) convert(x *ssa.Convert) {
	from, to := x.X.Type().Underlying(), x.Type().Underlying()
	fs, ts := vc.e.sortOf(from), vc.e.sortOf(to)
	a := vc.v(x.X)
	switch {
	case fs == SInt && ts == SInt:
		fb, _ := from.(*types.Basic)
		tb, _ := to.(*types.Basic)
		vc.val[x] = a
		if fb != nil && tb != nil && convNarrows(fb, tb) {
			// narrowing or sign-changing conversion: the result is only known to be in the target range
			if c, ok := x.X.(*ssa.Const); ok && c.Value != nil {
				vc.val[x] = a
			} else {
				n := vc.fresh(x.Name(), SInt)
				vc.val[x] = n
				vc.gfact(vc.typeFacts(n, x.Type()))
				rng := rangeOf(tb)
				if rng[0] != "" {
					vc.gfact(Imp(And(Ge(a, rng[0]), Le(a, rng[1])), Eq(n, a)))
				}
			}
		}
	case fs == SInt && ts == SStr:
		// string(rune)
		n := vc.havocVal(x)
		vc.gfact(And(Ge(sx("slen", n), "1"), Le(sx("slen", n), "4")))
		vc.gfact(Imp(And(Ge(a, "0"), Lt(a, "128")), And(Eq(sx("slen", n), "1"), Eq(sx("sat", n, "0"), a))))
	case fs == SSlice && ts == SStr:
		// string([]byte) / string([]rune)
		n := vc.havocVal(x)
		if st, ok := from.(*types.Slice); ok {
			if bt, ok := st.Elem().Underlying().(*types.Basic); ok && bt.Kind() == types.Uint8 {
				vc.gfact(Eq(sx("slen", n), sx("s_len", a)))
			}
		}
	case fs == SStr && ts == SSlice:
		// allocate first: the facts of the fresh slice value refer to the allocation counter
		arr := vc.allocRef("conv")
		n := vc.havocVal(x)
		vc.gfact(And(Eq(sx("s_arr", n), arr), Eq(sx("s_off", n), "0")))
		if st, ok := to.(*types.Slice); ok {
			if bt, ok := st.Elem().Underlying().(*types.Basic); ok && bt.Kind() == types.Uint8 {
				vc.gfact(Eq(sx("s_len", n), sx("slen", a)))
			} else {
				// runes: between a quarter of the bytes (rounded up) and all of them
				vc.gfact(And(Le(sx("s_len", n), sx("slen", a)), Le(sx("slen", a), sx("*", "4", sx("s_len", n)))))
				vc.runeConvs = append(vc.runeConvs, [2]Term{a, n})
			}
			en, es := vc.e.elemArr(st.Elem())
			vc.arrCur(en, es)
			vc.havocArrFresh(en, arr)
		}
	case fs == SInt && ts == SFlt:
		vc.setVal(x, sx("int2flt", a))
	case fs == SFlt && ts == SInt:
		vc.setVal(x, sx("flt2int", a))
		vc.gfact(vc.typeFacts(vc.val[x], x.Type()))
	case fs == ts:
		vc.val[x] = a
	default:
		vc.unsupp("convert %s -> %s", x.X.Type(), x.Type())
		vc.havocVal(x)
	}
}

// havocArrFresh gives unknown contents to the (fresh) object ref in array name
func (vc *VC) havocArrFresh(name string, ref Term) {
	srt := vc.arrSort[name]
	old := vc.arrCur(name, srt)
	// element sort
	inner := strings.TrimSuffix(strings.TrimPrefix(srt, "(Array Int "), ")")
	c := vc.fresh("contents", inner)
	vc.setArr(name, srt, Sto(old, ref, c))
}

func rangeOf(b *types.Basic) [2]string {
	switch b.Kind() {
	case types.Uint8:
		return [2]string{"0", "255"}
	case types.Int8:
		return [2]string{"(- 128)", "127"}
	case types.Uint16:
		return [2]string{"0", "65535"}
	case types.Int16:
		return [2]string{"(- 32768)", "32767"}
	case types.Int32:
		return [2]string{"(- 2147483648)", "2147483647"}
	case types.Uint32:
		return [2]string{"0", "4294967295"}
	case types.Uint, types.Uint64, types.Uintptr:
		return [2]string{"0", "18446744073709551615"}
	case types.Int, types.Int64:
		return [2]string{"(- 9223372036854775808)", "9223372036854775807"}
	}
	return [2]string{"", ""}
}

func basicSize(b *types.Basic) int {
	switch b.Kind() {
	case types.Uint8, types.Int8:
		return 1
	case types.Uint16, types.Int16:
		return 2
	case types.Uint32, types.Int32:
		return 4
	case types.UntypedInt, types.UntypedRune:
		return 8
	}
	return 8
}

func convNarrows(from, to *types.Basic) bool {
	fu, tu := from.Info()&types.IsUnsigned != 0, to.Info()&types.IsUnsigned != 0
	fsz, tsz := basicSize(from), basicSize(to)
	if fu == tu {
		return tsz < fsz
	}
	if fu && !tu {
		return tsz <= fsz
	}
	return true // signed -> unsigned
}

func (vc *VC) typeAssert(x *ssa.TypeAssert) {
	a := vc.v(x.X)
	var ok Term
	var val Term
	if types.IsInterface(x.AssertedType) {
		// interface-to-interface: satisfied iff the dynamic type implements it
		fn := sym("implements:" + vc.e.typeName(x.AssertedType))
		vc.declareFun(fn, []string{"Int"}, "Bool")
		ok = And(Ne(sx("i_tag", a), "0"), sx(fn, sx("i_tag", a)))
		val = a
	} else {
		ok = Eq(sx("i_tag", a), IntLit(int64(vc.e.tagOf(x.AssertedType))))
		val = vc.unbox(sx("i_val", a), x.AssertedType)
	}
	if x.CommaOk {
		okc := vc.fresh(x.Name()+".ok", SBool)
		vc.fact(Eq(okc, ok))
		vv := vc.fresh(x.Name()+".val", vc.e.sortOf(x.AssertedType))
		vc.fact(Eq(vv, Ite(okc, val, vc.e.zeroOf(x.AssertedType))))
		vc.gfact(Imp(okc, vc.typeFacts(vv, x.AssertedType)))
		if _, isPtr := x.AssertedType.Underlying().(*types.Pointer); isPtr && vc.e.cs.NonNilBoxed[vc.e.typeName(x.AssertedType)] {
			vc.gfact(Imp(okc, Ne(vv, "0"))) // discipline: this pointer type is never boxed as a typed nil
		}
		vc.tuple[x] = []Term{vv, okc}
		vc.val[x] = "0"
		return
	}
	vc.check("type-assert", x.Pos(), "", ok, vc.safetyProps())
	vc.setVal(x, val)
	vc.gfact(vc.typeFacts(vc.val[x], x.AssertedType))
	if _, isPtr := x.AssertedType.Underlying().(*types.Pointer); isPtr && vc.e.cs.NonNilBoxed[vc.e.typeName(x.AssertedType)] {
		vc.gfact(Ne(vc.val[x], "0"))
	}
}

func (vc *VC) lookup(x *ssa.Lookup) {
	sp := vc.safetyProps()
	switch u := x.X.Type().Underlying().(type) {
	case *types.Map:
		m, k := vc.v(x.X), vc.v(x.Index)
		if tn := vc.e.typeName(x.X.Type()); vc.e.cs.FoldedKeys[tn] {
			if ob := vc.check("folded-key", x.Pos(), "", sx("folded", k), append([]string{"C08"}, vc.e.cs.FoldedKeyProps[tn]...)); ob != nil {
				ob.Detail = tn
			}
		}
		d, v, ds, vs := vc.e.mapArrs(u)
		in := Sel(Sel(vc.arrCur(d, ds), m), k)
		val := Sel(Sel(vc.arrCur(v, vs), m), k)
		present := And(Ne(m, "0"), in)
		res := Ite(present, val, vc.e.zeroOf(u.Elem()))
		if x.CommaOk {
			okc := vc.fresh(x.Name()+".ok", SBool)
			vc.fact(Eq(okc, present))
			vv := vc.fresh(x.Name()+".val", vc.e.sortOf(u.Elem()))
			vc.fact(Eq(vv, res))
			if isStruct(u.Elem()) {
				vc.gfact(Imp(okc, vc.typeFacts(vv, u.Elem())))
			} else {
				vc.gfact(vc.typeFacts(vv, u.Elem()))
			}
			if vc.e.cs.NonNilElem[vc.e.typeName(x.X.Type())] {
				vc.gfact(Imp(okc, Not(vc.isNil(vv, u.Elem()))))
			}
			vc.tuple[x] = []Term{vv, okc}
			vc.val[x] = "0"
			return
		}
		vc.setVal(x, res)
		if isStruct(u.Elem()) {
			vc.gfact(Imp(present, vc.typeFacts(vc.val[x], u.Elem())))
		} else {
			vc.gfact(vc.typeFacts(vc.val[x], u.Elem()))
		}
		if vc.e.cs.NonNilElem[vc.e.typeName(x.X.Type())] {
			vc.gfact(Imp(present, Not(vc.isNil(vc.val[x], u.Elem()))))
		}
	default:
		// string index
		s, i := vc.v(x.X), vc.v(x.Index)
		vc.check("bounds", x.Pos(), "", And(Ge(i, "0"), Lt(i, sx("slen", s))), sp)
		vc.setVal(x, sx("sat", s, i))
		vc.gfact(And(Ge(vc.val[x], "0"), Le(vc.val[x], "255")))
	}
}

func (vc *VC) mapUpdate(x *ssa.MapUpdate) {
	sp := vc.safetyProps()
	mt := x.Map.Type().Underlying().(*types.Map)
	m, k, v := vc.v(x.Map), vc.v(x.Key), vc.v(x.Value)
	vc.check("nil-map", x.Pos(), "", Ne(m, "0"), sp)
	vc.sharedWriteCheck(x.Pos(), x.Map)
	if vc.e.cs.NonNilElem[vc.e.typeName(x.Map.Type())] && canBeNil(mt.Elem()) {
		if ob := vc.check("nonnil-store", x.Pos(), "", Not(vc.isNil(v, mt.Elem())), sp); ob != nil {
			ob.Detail = vc.e.typeName(x.Map.Type())
		}
	}
	vc.disciplineMapUpdate(x, m, k, v)
	if key, obj := vc.fieldOfMap(x.Map); key != "" {
		vc.atStoreClauses(key, x.Pos(), v, mt.Elem(), vc.v(obj), obj.Type())
	}
	// `at_store MapType: COND`: at every update of a map of that (named) type
	vc.atStoreClauses(vc.e.typeName(x.Map.Type()), x.Pos(), v, mt.Elem(), "", nil)
	d, vn, ds, vs := vc.e.mapArrs(mt)
	da, va := vc.arrCur(d, ds), vc.arrCur(vn, vs)
	vc.setArr(d, ds, Sto(da, m, Sto(Sel(da, m), k, "true")))
	vc.setArr(vn, vs, Sto(va, m, Sto(Sel(va, m), k, v)))
}

func (vc *VC) disciplineMapUpdate(x *ssa.MapUpdate, m, k, v Term) {
	tn := vc.e.typeName(x.Map.Type())
	if vc.e.cs.FoldedKeys[tn] {
		if ob := vc.check("folded-key", x.Pos(), "", sx("folded", k), append([]string{"C08"}, vc.e.cs.FoldedKeyProps[tn]...)); ob != nil {
			ob.Detail = tn
		}
	}
}

func (vc *VC) next(x *ssa.Next) {
	r, ok := x.Iter.(*ssa.Range)
	if !ok {
		vc.unsupp("next on non-range")
		return
	}
	it := vc.iterName(r)
	okc := vc.fresh(x.Name()+".ok", SBool)
	if mt, isMap := r.X.Type().Underlying().(*types.Map); isMap {
		m := vc.v(r.X)
		ks := vc.e.sortOf(mt.Key())
		s := "(Array " + ks + " Bool)"
		vis := vc.arrCur(it, s)
		k := vc.fresh(x.Name()+".k", ks)
		d, vn, ds, vs := vc.e.mapArrs(mt)
		dom := Sel(vc.arrCur(d, ds), m)
		vv := vc.fresh(x.Name()+".v", vc.e.sortOf(mt.Elem()))
		vc.fact(Eq(vv, Sel(Sel(vc.arrCur(vn, vs), m), k)))
		vc.gfact(Imp(okc, And(Ne(m, "0"), Sel(dom, k), Not(Sel(vis, k)))))
		vc.gfact(Imp(okc, And(vc.typeFacts(k, mt.Key()), vc.typeFacts(vv, mt.Elem()))))
		if vc.e.cs.NonNilElem[vc.e.typeName(r.X.Type())] {
			vc.gfact(Imp(okc, Not(vc.isNil(vv, mt.Elem()))))
		}
		vc.gfact(Imp(Not(okc), fmt.Sprintf("(forall ((kk %s)) (! (=> (and (not (= %s 0)) (select %s kk)) (select %s kk)) :pattern ((select %s kk)) :pattern ((select %s kk))))", ks, m, dom, vis, vis, dom)))
		vc.setArr(it, s, Ite(okc, Sto(vis, k, "true"), vis))
		vc.mapRangeKeyFacts(x, r, k)
		vc.tuple[x] = []Term{okc, k, vv}
		vc.val[x] = "0"
		return
	}
	// string
	s := vc.v(r.X)
	pos := vc.arrCur(it, SInt)
	vc.fact(Eq(okc, Lt(pos, sx("slen", s))))
	rn := vc.fresh(x.Name()+".r", SInt)
	w := vc.fresh(x.Name()+".w", SInt)
	vc.gfact(Ge(pos, "0"))
	vc.gfact(Imp(okc, And(Ge(rn, "0"), Le(rn, "1114111"), Ge(w, "1"), Le(w, "4"), Le(Add(pos, w), sx("slen", s)),
		Eq(Lt(sx("sat", s, pos), "128"), Lt(rn, "128")),
		Imp(Lt(rn, "128"), And(Eq(w, "1"), Eq(rn, sx("sat", s, pos)))))))
	vc.setArr(it, SInt, Ite(okc, Add(pos, w), pos))
	vc.tuple[x] = []Term{okc, pos, rn}
	vc.val[x] = "0"
}

func (vc *VC) mapRangeKeyFacts(x *ssa.Next, r *ssa.Range, k Term) {
	if vc.e.cs.FoldedKeys[vc.e.typeName(r.X.Type())] {
		vc.gfact(sx("folded", k))
	}
}

func (vc *VC) slice(x *ssa.Slice) {
	sp := vc.safetyProps()
	a := vc.v(x.X)
	lo := "0"
	if x.Low != nil {
		lo = vc.v(x.Low)
	}
	switch u := x.X.Type().Underlying().(type) {
	case *types.Basic: // string
		hi := sx("slen", a)
		if x.High != nil {
			hi = vc.v(x.High)
		}
		vc.check("slice-bounds", x.Pos(), "", And(Ge(lo, "0"), Le(lo, hi), Le(hi, sx("slen", a))), sp)
		if x.Low == nil && x.High == nil {
			vc.val[x] = a
			return
		}
		vc.setVal(x, sx("ssub", a, lo, hi))
		n := vc.val[x]
		vc.gfact(Eq(sx("slen", n), Sub(hi, lo)))
		vc.gfact(Imp(sx("nlfree", a), sx("nlfree", n)))
		vc.gfact(Imp(sx("folded", a), sx("folded", n)))
		vc.substrFacts(n, a, lo, hi)
	case *types.Slice:
		hi := sx("s_len", a)
		if x.High != nil {
			hi = vc.v(x.High)
		}
		mx := sx("s_cap", a)
		if x.Max != nil {
			mx = vc.v(x.Max)
		}
		vc.check("slice-bounds", x.Pos(), "", And(Ge(lo, "0"), Le(lo, hi), Le(hi, mx), Le(mx, sx("s_cap", a))), sp)
		// slicing a nil slice yields nil
		vc.setVal(x, Ite(Eq(sx("s_arr", a), "0"), "nil_slice", sx("mk_slice", sx("s_arr", a), Add(sx("s_off", a), lo), Sub(hi, lo), Sub(mx, lo))))
	case *types.Pointer:
		at := u.Elem().Underlying().(*types.Array)
		n := IntLit(at.Len())
		hi := n
		if x.High != nil {
			hi = vc.v(x.High)
		}
		vc.check("nil", x.Pos(), "", Ne(a, "0"), sp)
		vc.check("slice-bounds", x.Pos(), "", And(Ge(lo, "0"), Le(lo, hi), Le(hi, n)), sp)
		vc.setVal(x, sx("mk_slice", a, lo, Sub(hi, lo), Sub(n, lo)))
		if vc.e.cs.NonNilElem[vc.e.typeName(x.Type())] && x.Low == nil && x.High == nil && at.Len() <= 16 {
			en, es := vc.e.elemArr(at.Elem())
			for i := int64(0); i < at.Len(); i++ {
				if ob := vc.check("nonnil-elems", x.Pos(), "", Not(vc.isNil(Sel(Sel(vc.arrCur(en, es), a), IntLit(i)), at.Elem())), sp); ob != nil {
					ob.Detail = vc.e.typeName(x.Type())
				}
			}
		}
	default:
		vc.unsupp("slice of %s", x.X.Type())
		vc.havocVal(x)
	}
}

// substrFacts: byte-level relation for constant small windows
func (vc *VC) substrFacts(n, a, lo, hi Term) {
	// sat(substr(a,lo,hi), 0) = sat(a, lo) is given only for index 0 and hi-lo-1 (enough for prefix/suffix tests)
	vc.gfact(Imp(Lt(lo, hi), Eq(sx("sat", n, "0"), sx("sat", a, lo))))
}

func (vc *VC) ret(x *ssa.Return) {
	if vc.con == nil {
		return
	}
	props := vc.con.Props
	if len(props) == 0 {
		props = vc.safetyProps()
	}
	ce := vc.envEntry()
	ce.heap = vc.cur
	ce.resNm = vc.retNames
	for i, r := range x.Results {
		_ = i
		ce.result = append(ce.result, cval{t: vc.v(r), typ: r.Type()})
	}
	for _, ar := range vc.con.AtReturns {
		vc.evalPos = x.Pos()
		le := vc.envAt(vc.blk, vc.cur, nil)
		vc.evalPos = token.NoPos
		le.result = ce.result
		le.resNm = ce.resNm
		t := le.evalTop(ar.Expr, true)
		if le.err != nil {
			vc.unsupp("at_return %q: %v", ar.Text, le.err)
			continue
		}
		pr := props
		if len(ar.Props) > 0 {
			pr = ar.Props
		}
		vc.check("at-return", x.Pos(), ar.Text, t.t, pr)
	}
	for _, bc := range vc.con.BodyCalls {
		var reaches []Term
		for _, blk := range vc.fn.Blocks {
			for _, ins := range blk.Instrs {
				if vc.matchesBodyCall(ins, bc.Fn) {
					if r, ok := vc.reach[blk.Index]; ok && vc.innermostLoop(blk.Index) < 0 {
						reaches = append(reaches, r)
					}
				}
			}
		}
		// parameters denote entry values, other names the local variables in scope at this return
		saved := vc.evalPos
		vc.evalPos = x.Pos()
		le := vc.envAt(vc.blk, vc.cur, nil)
		vc.evalPos = saved
		for name, v := range ce.vars {
			if _, has := le.vars[name]; !has {
				le.vars[name] = v
			}
		}
		le.result = ce.result
		le.resNm = ce.resNm
		t, wfs := le.evalWithSides(bc.Cond)
		if le.err != nil {
			vc.unsupp("body_calls %q: %v", bc.Text, le.err)
			continue
		}
		pr := props
		if len(bc.Props) > 0 {
			pr = bc.Props
		}
		kind := "body-calls"
		if strings.HasPrefix(bc.Fn, "store:") {
			kind = "body-stores"
		}
		vc.check(kind, token.NoPos, bc.Text, Imp(wfs, Eq(Or(reaches...), t.t)), pr)
	}
	for _, c := range vc.con.Ensures {
		if c.InTrustedBlock {
			continue // trusted clause: assumed at call sites, listed in the evidence, not verified here
		}
		ce.err = nil
		t := ce.evalTop(c.Expr, true)
		if ce.err != nil {
			vc.unsupp("ensures %q: %v", c.Text, ce.err)
			continue
		}
		pr := props
		if len(c.Props) > 0 {
			pr = c.Props
		}
		vc.check("ensures", x.Pos(), c.Text, t.t, pr)
	}
}

// sharedWriteCheck (C09/C10): the package-level tables (built-in variable and function types, popular
// actions, webhook and permission tables, ...) are shared by every file, job and expression of a run.
// A store whose target is reached from a package-level variable - the variable's map or slice itself, or
// an object found by looking one up in it - modifies what every later check sees. Package initialisers
// are exempt.
func (vc *VC) sharedWriteCheck(pos token.Pos, target ssa.Value) {
	if vc.fn.Name() == "init" || strings.HasPrefix(vc.fn.Name(), "init#") || vc.fn.Synthetic != "" {
		return
	}
	var g *ssa.Global
	var from func(v ssa.Value, d int) bool
	from = func(v ssa.Value, d int) bool {
		if d > 10 {
			return false
		}
		switch y := v.(type) {
		case *ssa.Global:
			// only tables: maps, slices, pointers to structs held in package variables
			if y.Pkg != vc.e.pkg {
				return false
			}
			switch deref(y.Type()).Underlying().(type) {
			case *types.Map, *types.Slice, *types.Pointer, *types.Interface:
				g = y
				return true
			}
			return false
		case *ssa.UnOp:
			return y.Op == token.MUL && from(y.X, d+1)
		case *ssa.Lookup:
			return from(y.X, d+1)
		case *ssa.Extract:
			return from(y.Tuple, d+1)
		case *ssa.TypeAssert:
			return from(y.X, d+1)
		case *ssa.FieldAddr:
			return from(y.X, d+1)
		case *ssa.IndexAddr:
			return from(y.X, d+1)
		case *ssa.Index:
			return from(y.X, d+1)
		case *ssa.Field:
			return from(y.X, d+1)
		case *ssa.Slice:
			return from(y.X, d+1)
		case *ssa.ChangeType:
			return from(y.X, d+1)
		case *ssa.MakeInterface:
			return from(y.X, d+1)
		case *ssa.Phi:
			for _, e := range y.Edges {
				if from(e, d+1) {
					return true
				}
			}
		}
		return false
	}
	// a store directly to the variable (re-binding it) is a write to a global cell, handled as state;
	// what is checked here is a write INTO the table
	if _, direct := target.(*ssa.Global); direct {
		return
	}
	if !from(target, 0) {
		return
	}
	if ob := vc.check("shared-write", pos, "", "false", []string{"C09", "C10"}); ob != nil && g != nil {
		ob.Detail = g.Name()
	}
}

// interiorOfLocal: the address points into a local (stack / composite literal) allocation.
func interiorOfLocal(a ssa.Value) bool {
	for d := 0; d < 10; d++ {
		switch y := a.(type) {
		case *ssa.FieldAddr:
			a = y.X
		case *ssa.IndexAddr:
			a = y.X
		case *ssa.Alloc:
			return true
		default:
			return false
		}
	}
	return false
}
