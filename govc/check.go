package main

// `govc check`: decide one property on the current working tree of /repo.

import (
	"encoding/json"
	"flag"
	"fmt"
	"golang.org/x/tools/go/ssa"
	"os"
	"path/filepath"
	"runtime"
	"sort"
	"strconv"
	"strings"
	"time"
)

type Ledger struct {
	Property   string   `json:"property"`
	Commit     string   `json:"repo_commit"`
	Discharged []string `json:"discharged"`
	Undecided  []string `json:"undecided"`
	Functions  []string `json:"functions"`
	Anchors    []string `json:"anchors"`
	AllFuncs   []string `json:"all_functions,omitempty"` // every function of the package on the pinned tree
	// per function, the header texts of its loops that carry no contract (explicit or inferred) on the
	// pinned tree; a loop without contract that is not listed here was introduced by the change
	BareLoops map[string][]string `json:"bare_loops,omitempty"`
	// per function, the contract clauses that could not be evaluated on the pinned tree because they name
	// something that is not in scope at that program point (normal for clauses written for some paths only)
	Unevaluable map[string][]string `json:"unevaluable_clauses,omitempty"`
}

type KnownFinding struct {
	Property   string `json:"property"`
	Obligation string `json:"obligation"`
	What       string `json:"what"`
	Status     string `json:"status"` // "open" or "fixed"
	Commit     string `json:"commit,omitempty"`
	Input      string `json:"input,omitempty"`
}

type KnownFindings struct {
	Findings []KnownFinding `json:"findings"`
}

func hasProp(ob *Obligation, p string) bool {
	for _, x := range ob.Props {
		if x == p {
			return true
		}
	}
	return false
}

func verifDir() string {
	if d := os.Getenv("VERIF_DIR"); d != "" {
		return d
	}
	exe, err := os.Executable()
	if err == nil {
		d := filepath.Dir(filepath.Dir(exe))
		if _, err := os.Stat(filepath.Join(d, "properties.jsonl")); err == nil {
			return d
		}
	}
	return "/verif"
}

func baseName(n string) string {
	if i := strings.LastIndex(n, "#"); i > 0 {
		if _, err := strconv.Atoi(n[i+1:]); err == nil {
			return n[:i]
		}
	}
	return n
}

// fnKind gives "function/kind" of an obligation name.
func fnKind(n string) string {
	parts := strings.SplitN(n, "/", 3)
	if len(parts) < 2 {
		return n
	}
	return parts[0] + "/" + parts[1]
}

var boundedForEvidence *BoundedResult

type checkRun struct {
	prop      string
	tier      string
	e         *Engine
	vcs       []*VC
	obls      []*Obligation
	vcOf      map[*Obligation]*VC
	wallStart time.Time
}

func generateAll(e *Engine) []*VC {
	var vcs []*VC
	for _, f := range e.order {
		vc := newVC(e, f, nil)
		func() {
			defer func() {
				if r := recover(); r != nil {
					vc.unsupported = append(vc.unsupported, fmt.Sprintf("translator panic: %v", r))
					vc.obls = nil
					vc.items = nil
				}
			}()
			vc.Generate()
		}()
		vcs = append(vcs, vc)
	}
	return vcs
}

func cmdCheck(args []string) {
	fs := flag.NewFlagSet("check", flag.ExitOnError)
	repo := fs.String("repo", "/repo", "repository")
	prop := fs.String("prop", "", "property id")
	tier := fs.String("tier", "quick", "quick|thorough")
	bless := fs.Bool("bless", false, "rewrite the ledger from this run (development only)")
	fs.Parse(args)
	if *prop == "" {
		fmt.Fprintln(os.Stderr, "need -prop")
		os.Exit(2)
	}
	if t := os.Getenv("VERIF_TIER"); t != "" && (t == "quick" || t == "thorough") {
		*tier = t
	}
	seed := 0
	if s := os.Getenv("VERIF_SEED"); s != "" {
		seed, _ = strconv.Atoi(s)
	}
	start := time.Now()
	vdir := verifDir()
	evPath := filepath.Join(vdir, "evidence", *prop+".json")
	// a run against a scratch copy of the repository (selftest, benign corpus) must not touch the evidence and
	// replay files of the real tree
	scratch := filepath.Clean(*repo) != "/repo"
	if scratch {
		evPath = filepath.Join(os.TempDir(), "govc-scratch", strconv.Itoa(os.Getpid()), *prop+".json")
	}
	os.MkdirAll(filepath.Dir(evPath), 0o755)
	os.Remove(evPath)

	e, err := loadEngine(*repo)
	if err != nil {
		fmt.Fprintf(os.Stderr, "govc: cannot load %s: %v\n", *repo, err)
		// a tree that does not compile / whose contracts do not parse cannot be checked: tool error
		os.Exit(2)
	}
	vcs := generateAll(e)
	ledPath := filepath.Join(vdir, "ledger", *prop+".json")
	var led Ledger
	if data, err := os.ReadFile(ledPath); err == nil {
		json.Unmarshal(data, &led)
	} else if !*bless {
		fmt.Fprintf(os.Stderr, "govc: no ledger %s\n", ledPath)
		os.Exit(2)
	}
	wasUndecided := map[string]bool{}
	for _, n := range led.Undecided {
		wasUndecided[n] = true
	}
	all := func(ob *Obligation) bool { return hasProp(ob, *prop) }
	// obligations that are undecided on the pinned tree are not claimed: the quick tier does not spend time on them
	// functions that carry ledger obligations of this property: what those proofs rest on - the earlier,
	// assumed obligations of the same function, whatever property they are tagged with - is checked as well
	ledFn := map[string]bool{}
	for _, f := range led.Functions {
		ledFn[f] = true
	}
	support := func(ob *Obligation) bool {
		return !*bless && !hasProp(ob, *prop) && ledFn[ob.Fn] && poisons(ob.Kind) && !softKind(ob)
	}
	sel := func(ob *Obligation) bool {
		if support(ob) {
			return true
		}
		return hasProp(ob, *prop) && (*bless || *tier == "thorough" || !wasUndecided[ob.Name])
	}
	tmo := 10000
	if *tier == "thorough" {
		tmo = 60000
	}
	if *bless {
		tmo = 2000
	}
	solveAllSel(vcs, sel, tmo)
	if *bless {
		// second chance, standalone and on every solver, for what the incremental run did not decide
		var again []*Obligation
		owner := map[*Obligation]*VC{}
		for _, vc := range vcs {
			for _, ob := range vc.obls {
				if sel(ob) && ob.Result != "unsat" {
					again = append(again, ob)
					owner[ob] = vc
				}
			}
		}
		parallelDo(len(again), func(i int) { owner[again[i]].retry(again[i], tmo) })
	}

	// a supporting obligation that fails makes everything proved after it in the same function conditional:
	// the solver assumed it. Retry the failing ones standalone on every solver first.
	if !*bless {
		var again []*Obligation
		owner := map[*Obligation]*VC{}
		for _, vc := range vcs {
			for _, ob := range vc.obls {
				if support(ob) && ob.Result != "unsat" {
					again = append(again, ob)
					owner[ob] = vc
				}
			}
		}
		parallelDo(len(again), func(i int) { owner[again[i]].retry(again[i], tmo) })
		// the failed ones are not assumed any more; the obligations of such a function are solved again, so
		// that exactly those fail which rested on the failed assumption
		var redo []*VC
		for _, vc := range vcs {
			for _, ob := range vc.obls {
				if support(ob) && ob.Result != "unsat" {
					if vc.noAssume == nil {
						vc.noAssume = map[int]bool{}
						redo = append(redo, vc)
					}
					vc.noAssume[ob.Index] = true
					fmt.Printf("NOTE property=%s supporting obligation fails and is not assumed: %q\n", *prop, ob.Name)
				}
			}
		}
		if len(redo) > 0 {
			keep := func(ob *Obligation) bool { return sel(ob) && !support(ob) }
			for _, vc := range redo {
				for _, ob := range vc.obls {
					if keep(ob) {
						ob.Result = ""
					}
				}
			}
			solveAllSel(redo, keep, tmo)
		}
	}

	vcOf := map[*Obligation]*VC{}
	var obls []*Obligation
	byName := map[string]*Obligation{}
	for _, vc := range vcs {
		for _, ob := range vc.obls {
			if all(ob) {
				if !sel(ob) {
					ob.Result = "not-attempted"
				}
				obls = append(obls, ob)
				vcOf[ob] = vc
				byName[ob.Name] = ob
			}
		}
	}
	if len(obls) == 0 {
		fmt.Fprintf(os.Stderr, "govc: no obligations generated for %s (vacuous check)\n", *prop)
		os.Exit(2)
	}
	for _, vc := range vcs {
		if vc.Vacuous {
			fmt.Fprintf(os.Stderr, "govc: contradictory entry assumptions in %s (vacuity probe failed)\n", e.fname(vc.fn))
			os.Exit(2)
		}
	}
	if *bless {
		writeLedger(e, ledPath, *prop, obls, vcs)
		return
	}
	var kf KnownFindings
	if data, err := os.ReadFile(filepath.Join(vdir, "known_findings.json")); err == nil {
		json.Unmarshal(data, &kf)
	}
	inLedger := map[string]bool{}
	for _, n := range led.Discharged {
		inLedger[n] = true
	}
	known := map[string]KnownFinding{}
	for _, k := range kf.Findings {
		if k.Property == *prop && k.Status != "fixed" {
			known[k.Obligation] = k
		}
	}

	// 1. classify
	var suspects []*Obligation // failing now, discharged in ledger
	var newFailing []*Obligation
	var vanished []string
	discharged := 0
	for _, ob := range obls {
		if ob.Result == "unsat" {
			if inLedger[ob.Name] {
				discharged++
			}
			continue
		}
		if inLedger[ob.Name] {
			suspects = append(suspects, ob)
		} else if !wasUndecided[ob.Name] {
			newFailing = append(newFailing, ob)
		}
	}
	for _, n := range led.Discharged {
		if byName[n] == nil {
			vanished = append(vanished, n)
		}
	}
	// 2. escalate suspects and new failures (all solvers, standalone)
	var esc []*Obligation
	for _, ob := range append(append([]*Obligation{}, suspects...), newFailing...) {
		if ob.Result != "conditional" {
			esc = append(esc, ob) // (a conditional one is proved, but under a failed assumption: nothing to retry)
		}
	}
	parallelDo(len(esc), func(i int) {
		ob := esc[i]
		vcOf[ob].retry(ob, tmo)
	})
	type violation struct {
		ob     *Obligation
		reason string
	}
	var viols []violation
	knownFn := map[string]bool{}
	for _, n := range led.AllFuncs {
		knownFn[n] = true
	}
	// Obligations with the same function, kind and text are told apart by an ordinal (#2, #3, ...) in
	// generation order. Reordering statements permutes the ordinals: a site that was undecided on the pinned
	// tree can take over the name of a discharged one. Per base name, what counts is how many are discharged
	// and how many fail: at least as many discharged as in the ledger and no more failing ones than the ledger
	// lists undecided means nothing was lost and nothing failing was added.
	baseOf := func(n string) string {
		if i := strings.LastIndex(n, "#"); i > 0 {
			if _, err := strconv.Atoi(n[i+1:]); err == nil {
				return n[:i]
			}
		}
		return n
	}
	ledDisc := map[string]int{}
	for _, n := range led.Discharged {
		ledDisc[baseOf(n)]++
	}
	ledUnd := map[string]int{}
	for _, n := range led.Undecided {
		ledUnd[baseOf(n)]++
	}
	renumbered := map[string]bool{}
	{
		need := map[string]bool{}
		for _, ob := range suspects {
			if ob.Result != "unsat" {
				need[baseOf(ob.Name)] = true
			}
		}
		if len(need) > 0 {
			var todo []*Obligation
			for _, ob := range obls {
				if need[baseOf(ob.Name)] && ob.Result == "not-attempted" {
					todo = append(todo, ob)
				}
			}
			parallelDo(len(todo), func(i int) { vcOf[todo[i]].retry(todo[i], tmo) })
			now := map[string]int{}
			nowFail := map[string]int{}
			for _, ob := range obls {
				if !need[baseOf(ob.Name)] {
					continue
				}
				if ob.Result == "unsat" {
					now[baseOf(ob.Name)]++
				} else {
					nowFail[baseOf(ob.Name)]++
				}
			}
			for b := range need {
				// as many discharged as on the pinned tree, and not more failing ones than were undecided
				// there: an added site (e.g. a new return point) that fails is not a renumbering
				if now[b] >= ledDisc[b] && nowFail[b] <= ledUnd[b] {
					renumbered[b] = true
				}
			}
		}
	}
	var behindNewFn []string
	for _, ob := range suspects {
		if ob.Result == "unsat" {
			discharged++
			continue
		}
		if renumbered[baseOf(ob.Name)] {
			discharged++ // the same number of obligations of this name is discharged as on the pinned tree
			continue
		}
		// modular verification cannot see through a function that did not exist when the ledger was
		// written and therefore has no contract (typically a helper extracted by a refactoring): what was
		// proved through the old code is undecided, not violated. Reported, never silent.
		if len(knownFn) > 0 {
			if nf := vcOf[ob].newCallee(knownFn); nf != "" {
				behindNewFn = append(behindNewFn, ob.Name+" (calls new function "+nf+", which has no contract)")
				continue
			}
		}
		if nl := vcOf[ob].newBareLoop(&led, ob); nl != "" && !decisiveKind(ob.Kind) {
			behindNewFn = append(behindNewFn, ob.Name+" (the function has a new loop \""+nl+"\", which has no invariant)")
			continue
		}
		if sc := vcOf[ob].staleClause(&led); sc != "" && !decisiveKind(ob.Kind) {
			behindNewFn = append(behindNewFn, ob.Name+" (a contract clause of the function cannot be evaluated any more: "+sc+")")
			continue
		}
		if ob.Result == "conditional" {
			viols = append(viols, violation{ob, ob.Model})
			continue
		}
		viols = append(viols, violation{ob, "obligation discharged on the pinned tree now fails"})
	}
	for _, n := range behindNewFn {
		fmt.Printf("UNDECIDED property=%s obligation=%q\n", *prop, n)
	}
	// 3. new failing obligations: a violation only when they replace a vanished discharged obligation
	//    of the same function and kind (the code of a proved site was changed and is not provable any more)
	vanByFK := map[string][]string{}
	for _, n := range vanished {
		vanByFK[fnKind(n)] = append(vanByFK[fnKind(n)], n)
	}
	// baseline: functions known to the ledger, and per function/kind the number of undecided obligations
	baseFn := map[string]bool{}
	baseUndFK := map[string]int{}
	for _, n := range led.Discharged {
		baseFn[strings.SplitN(n, "/", 2)[0]] = true
	}
	for _, n := range led.Undecided {
		baseFn[strings.SplitN(n, "/", 2)[0]] = true
		baseUndFK[fnKind(n)]++
	}
	var undecidedNew []*Obligation
	for _, ob := range newFailing {
		if ob.Result == "unsat" {
			continue
		}
		fk := fnKind(ob.Name)
		if len(knownFn) > 0 && !decisiveKind(ob.Kind) {
			if nf := vcOf[ob].newCallee(knownFn); nf != "" {
				fmt.Printf("UNDECIDED property=%s obligation=%q\n", *prop, ob.Name+" (calls new function "+nf+", which has no contract)")
				undecidedNew = append(undecidedNew, ob)
				continue
			}
		}
		if nl := vcOf[ob].newBareLoop(&led, ob); nl != "" && !decisiveKind(ob.Kind) {
			fmt.Printf("UNDECIDED property=%s obligation=%q\n", *prop, ob.Name+" (the function has a new loop \""+nl+"\", which has no invariant)")
			undecidedNew = append(undecidedNew, ob)
			continue
		}
		if sc := vcOf[ob].staleClause(&led); sc != "" && !decisiveKind(ob.Kind) {
			fmt.Printf("UNDECIDED property=%s obligation=%q\n", *prop, ob.Name+" (a contract clause of the function cannot be evaluated any more: "+sc+")")
			undecidedNew = append(undecidedNew, ob)
			continue
		}
		if len(vanByFK[fk]) > 0 {
			old := vanByFK[fk][0]
			vanByFK[fk] = vanByFK[fk][1:]
			viols = append(viols, violation{ob, "replaces discharged obligation " + old + " and is not provable"})
			continue
		}
		if decisiveKind(ob.Kind) && baseUndFK[fk] == 0 {
			// syntactic disciplines: every obligation of such a kind on the pinned tree is in the ledger
			// (discharged or listed undecided by name), so one that fails now was introduced by the change
			viols = append(viols, violation{ob, "new failing obligation of the discipline '" + ob.Kind + "'"})
			continue
		}
		if baseFn[ob.Fn] && baseUndFK[fk] == 0 {
			// every obligation of this kind in this function was proved on the pinned tree; the changed
			// function now contains one that cannot be proved
			viols = append(viols, violation{ob, "new obligation in a function whose obligations of this kind were all discharged on the pinned tree"})
			continue
		}
		undecidedNew = append(undecidedNew, ob)
	}
	// anchors
	var anchorMissing []string
	for _, a := range led.Anchors {
		if e.funcs[a] == nil {
			anchorMissing = append(anchorMissing, a)
		}
	}

	// 4. report
	exit := 0
	replayDir := filepath.Join(vdir, "replay")
	if scratch {
		replayDir = filepath.Join(os.TempDir(), "govc-scratch", "replay")
	}
	os.MkdirAll(replayDir, 0o755)
	var kfLines []string
	nviol := 0
	cexTried := 0
	var violNames []string
	for _, v := range viols {
		if k, ok := known[v.ob.Name]; ok {
			kfLines = append(kfLines, fmt.Sprintf("KNOWN-FINDING: property=%s %s (%s)", *prop, k.What, v.ob.Name))
			continue
		}
		var cex *Cex
		if panicKind(v.ob.Kind) && cexTried < 4 && vcOf[v.ob] != nil {
			cexTried++
			for attempt := 0; attempt < 3; attempt++ {
				c := vcOf[v.ob].tryCounterexample(v.ob, attempt)
				if c == nil {
					break
				}
				cex = c
				if c.Confirmed {
					break
				}
			}
		}
		path := writeReplay(replayDir, *prop, v.ob, vcOf[v.ob], v.reason, cex)
		suffix := " no-failing-input-found"
		if cex != nil && cex.Confirmed {
			suffix = " failing-input-replayed-on-real-code"
		}
		fmt.Printf("VIOLATION property=%s replay=%s obligation=%q result=%s%s\n", *prop, path, v.ob.Name, v.ob.Result, suffix)
		nviol++
		violNames = append(violNames, v.ob.Name)
		exit = 1
	}
	for _, a := range anchorMissing {
		path := filepath.Join(replayDir, *prop+"-anchor-"+sanitize(a)+".txt")
		os.WriteFile(path, []byte("anchor function "+a+" carrying the top-level contract of "+*prop+" no longer exists\n"), 0o644)
		fmt.Printf("VIOLATION property=%s replay=%s obligation=%q no-failing-input-found\n", *prop, path, "anchor:"+a)
		nviol++
		exit = 1
	}
	// known findings that are (still) failing and were never in the ledger
	for name, k := range known {
		ob := byName[name]
		already := false
		for _, l := range kfLines {
			if strings.Contains(l, name) {
				already = true
			}
		}
		if already {
			continue
		}
		if ob != nil && ob.Result != "unsat" {
			kfLines = append(kfLines, fmt.Sprintf("KNOWN-FINDING: property=%s %s (%s)", *prop, k.What, name))
		}
	}
	sort.Strings(kfLines)
	for _, l := range kfLines {
		fmt.Println(l)
	}

	// 4b. bounded stand-in (labelled, never counted as proved)
	bounded := runBounded(*repo, vdir, *prop, *tier, seed)
	if bounded != nil {
		if bounded.Error != "" {
			fmt.Fprintf(os.Stderr, "govc: bounded harness of %s failed to run: %s\n", *prop, bounded.Error)
			os.Exit(2)
		}
		for i, f := range bounded.Failures {
			data, _ := json.MarshalIndent(f, "", " ")
			key := ""
			if m, ok := f.(map[string]interface{}); ok {
				if k, ok := m["key"].(string); ok {
					key = k
				}
			}
			if k, ok := known["bounded:"+key]; ok && key != "" {
				line := fmt.Sprintf("KNOWN-FINDING: property=%s %s (bounded:%s)", *prop, k.What, key)
				dup := false
				for _, l := range kfLines {
					if l == line {
						dup = true
					}
				}
				if !dup {
					kfLines = append(kfLines, line)
					fmt.Println(line)
				}
				bounded.Known = append(bounded.Known, key)
				continue
			}
			path := filepath.Join(replayDir, fmt.Sprintf("%s-bounded-%d.json", *prop, i))
			os.WriteFile(path, data, 0o644)
			fmt.Printf("VIOLATION property=%s replay=%s bounded-failing-input=%s\n", *prop, path, strings.ReplaceAll(string(data), "\n", " "))
			nviol++
			exit = 1
			if i >= 10 {
				break
			}
		}
	}
	// 5. evidence
	boundedForEvidence = bounded
	writeEvidence(evPath, *prop, *tier, seed, e, vcs, obls, vcOf, &led, discharged, nviol, violNames, undecidedNew, vanished, kfLines, time.Since(start))
	fmt.Printf("%s %s: %d/%d ledger obligations discharged, %d vanished, %d new undecided, %d violations, %.1fs\n",
		*prop, *tier, discharged, len(led.Discharged)-len(vanished), len(vanished), len(undecidedNew), nviol, time.Since(start).Seconds())
	os.Exit(exit)
}

func sanitize(s string) string {
	var b strings.Builder
	for _, r := range s {
		if r >= 'a' && r <= 'z' || r >= 'A' && r <= 'Z' || r >= '0' && r <= '9' || r == '-' || r == '_' || r == '.' {
			b.WriteRune(r)
		} else {
			b.WriteByte('_')
		}
	}
	out := b.String()
	if len(out) > 120 {
		out = out[:120]
	}
	return out
}

func parallelDo(n int, f func(i int)) {
	sem := make(chan struct{}, runtime.NumCPU()/2+1)
	done := make(chan struct{}, n)
	for i := 0; i < n; i++ {
		sem <- struct{}{}
		go func(i int) {
			defer func() { <-sem; done <- struct{}{} }()
			f(i)
		}(i)
	}
	for i := 0; i < n; i++ {
		<-done
	}
}

func writeReplay(dir, prop string, ob *Obligation, vc *VC, reason string, cex *Cex) string {
	path := filepath.Join(dir, fmt.Sprintf("%s-%s-%d.txt", prop, sanitize(ob.Name), ob.Index))
	var b strings.Builder
	fmt.Fprintf(&b, "property: %s\nobligation: %s\nkind: %s\nfunction: %s\nsource: %s\nreason: %s\nsolver: %s result: %s\n\n", prop, ob.Name, ob.Kind, ob.Fn, ob.Pos, reason, ob.Solver, ob.Result)
	fmt.Fprintf(&b, "goal (must be valid under the facts of the function's verification condition):\n  guard: %s\n  cond:  %s\n\n", ob.Guard, ob.Cond)
	switch {
	case cex != nil && cex.Confirmed:
		b.WriteString("counterexample: the solver's candidate model of the entry state was turned into Go values and the\nreal function was run on them (go test -overlay, nothing written to the repository): " + cex.Note + "\n")
	case cex != nil && cex.TestSrc != "":
		b.WriteString("a candidate model was turned into Go values and run against the real code, but it did not reproduce\nthe failure (" + cex.Note + "): no-failing-input-found\n")
	case ob.Model != "":
		b.WriteString("counterexample model returned by the solver (entry state of the function):\n")
		b.WriteString(filterModel(ob.Model))
	default:
		b.WriteString("the solver returned no model (unknown/timeout): no-failing-input-found\n")
		if cex != nil && cex.Note != "" {
			b.WriteString("(" + cex.Note + ")\n")
		}
	}
	b.WriteString("\nTo re-run: govc dump -fn '" + ob.Fn + "' -ob " + strconv.Itoa(ob.Index) + " | z3-new -in\n")
	if cex != nil && cex.TestSrc != "" {
		b.WriteString("\n--- BEGIN GO TEST (govc replay <this file> re-runs it on the current tree) ---\n")
		b.WriteString(cex.TestSrc)
		b.WriteString("--- END GO TEST ---\n\n--- output of the test on the tree that was checked ---\n")
		out := cex.Output
		if len(out) > 6000 {
			out = out[:6000] + "\n...(truncated)\n"
		}
		b.WriteString(out)
	}
	os.WriteFile(path, []byte(b.String()), 0o644)
	return path
}

// filterModel keeps the parts of a model that describe parameters and named SSA values.
func filterModel(m string) string {
	if len(m) > 20000 {
		m = m[:20000] + "\n...(truncated)\n"
	}
	return m
}

func writeLedger(e *Engine, path, prop string, obls []*Obligation, vcs []*VC) {
	led := Ledger{Property: prop}
	fnSet := map[string]bool{}
	for _, ob := range obls {
		if ob.Result == "unsat" {
			led.Discharged = append(led.Discharged, ob.Name)
			fnSet[ob.Fn] = true
		} else {
			led.Undecided = append(led.Undecided, ob.Name)
		}
	}
	for f := range fnSet {
		led.Functions = append(led.Functions, f)
	}
	for name, c := range e.cs.Funcs {
		if c.Anchor && e.funcs[name] != nil {
			for _, p := range c.Props {
				if p == prop {
					led.Anchors = append(led.Anchors, name)
				}
			}
		}
	}
	for name := range e.funcs {
		led.AllFuncs = append(led.AllFuncs, name)
	}
	led.BareLoops = map[string][]string{}
	led.Unevaluable = map[string][]string{}
	for _, vc := range vcs {
		if len(vc.bareLoops) > 0 {
			led.BareLoops[e.fname(vc.fn)] = append([]string{}, vc.bareLoops...)
		}
		if u := vc.unknownNameClauses(); len(u) > 0 {
			led.Unevaluable[e.fname(vc.fn)] = u
		}
	}
	sort.Strings(led.AllFuncs)
	sort.Strings(led.Discharged)
	sort.Strings(led.Undecided)
	sort.Strings(led.Functions)
	sort.Strings(led.Anchors)
	led.Commit = repoCommit(e.repoDir)
	os.MkdirAll(filepath.Dir(path), 0o755)
	data, _ := json.MarshalIndent(&led, "", " ")
	os.WriteFile(path, data, 0o644)
	fmt.Printf("blessed %s: %d discharged, %d undecided\n", path, len(led.Discharged), len(led.Undecided))
}

func repoCommit(dir string) string {
	data, err := os.ReadFile(filepath.Join(dir, ".git", "HEAD"))
	if err != nil {
		return ""
	}
	s := strings.TrimSpace(string(data))
	if strings.HasPrefix(s, "ref: ") {
		d2, err := os.ReadFile(filepath.Join(dir, ".git", s[5:]))
		if err == nil {
			return strings.TrimSpace(string(d2))
		}
	}
	return s
}

func decisiveKind(k string) bool {
	switch k {
	case "map-order", "forbid-call", "immutable-store", "loop-complete", "loop-nobreak", "loop-noreturn", "shared-write", "callback":
		return true
	}
	return false
}

// newCallee: the name of an in-package function called (statically) by the VC's function that is not in
// the set of functions known to the ledger ("" if none).
// newBareLoop: the text of a loop of the function that has no contract and did not exist (as a loop without
// contract) on the pinned tree. What has to be proved across such a loop needs an invariant nobody has
// written yet: undecided, not violated.
func (vc *VC) newBareLoop(led *Ledger, ob *Obligation) string {
	if led.BareLoops == nil {
		return ""
	}
	cnt := map[string]int{}
	for _, t := range led.BareLoops[vc.e.fname(vc.fn)] {
		cnt[t]++
	}
	// source line of the obligation (0 when it has no single position: postconditions of paths, invariants)
	obLine := 0
	if parts := strings.Split(ob.Pos, ":"); len(parts) >= 2 {
		obLine, _ = strconv.Atoi(parts[1])
	}
	// only as many loops can be new as the function has more contract-less loops than on the pinned tree (a
	// loop whose header text was edited is not a new loop)
	extra := len(vc.bareLoops) - len(led.BareLoops[vc.e.fname(vc.fn)])
	for i, t := range vc.bareLoops {
		if extra <= 0 {
			break
		}
		if cnt[t] == 0 {
			extra--
			// a new loop that is not nested in another one cannot influence what is checked before it
			if at := vc.bareLoopAt[i]; at > 0 && obLine > 0 && obLine < at {
				continue
			}
			return t
		}
		cnt[t]--
	}
	return ""
}

// unknownNameClauses: the contract clauses of the function that name an identifier which is not in scope where
// the clause is evaluated (deduplicated texts)
func (vc *VC) unknownNameClauses() []string {
	seen := map[string]bool{}
	var out []string
	for _, u := range vc.unsupported {
		if !strings.Contains(u, "unknown identifier") {
			continue
		}
		// drop the position part ("(back edge from block ...)") so that the text is stable
		if i := strings.Index(u, " (back edge"); i > 0 {
			u = u[:i]
		}
		if !seen[u] {
			seen[u] = true
			out = append(out, u)
		}
	}
	sort.Strings(out)
	return out
}

// staleClause: a contract clause of the function cannot be evaluated any more because it names a variable that
// the change renamed or removed (it could be evaluated on the pinned tree). The clause - typically a loop
// invariant - is silently missing from the proof: what fails for want of it is undecided, the contract needs
// maintenance.
func (vc *VC) staleClause(led *Ledger) string {
	if led.Unevaluable == nil {
		return ""
	}
	base := map[string]bool{}
	for _, u := range led.Unevaluable[vc.e.fname(vc.fn)] {
		base[u] = true
	}
	for _, u := range vc.unknownNameClauses() {
		if !base[u] {
			return u
		}
	}
	return ""
}

func (vc *VC) newCallee(known map[string]bool) string {
	for _, b := range vc.fn.Blocks {
		for _, ins := range b.Instrs {
			c, ok := ins.(ssa.CallInstruction)
			if !ok {
				continue
			}
			var g *ssa.Function
			switch v := c.Common().Value.(type) {
			case *ssa.Function:
				g = v
			case *ssa.MakeClosure:
				g, _ = v.Fn.(*ssa.Function)
			}
			if g == nil || g.Pkg != vc.e.pkg {
				continue
			}
			if n := vc.e.fname(g); !known[n] {
				return n
			}
		}
	}
	return ""
}
