package main

// Contract expression language: parser and AST. Evaluation is in ceval.go.

import (
	"fmt"
	"strings"
	"unicode"
)

type CExpr struct {
	Op   string   // "id","int","str","nil","true","false","sel","idx","slice","call","old","un","bin","forall","exists","result"
	Name string   // identifier, field, operator, literal text
	Args []*CExpr // operands
	Vars []cvar   // bound variables
	Pos  int
}

type cvar struct {
	Name string
	Type string // "" = int
}

func (e *CExpr) String() string {
	switch e.Op {
	case "id", "int", "nil", "true", "false", "result":
		return e.Name
	case "str":
		return fmt.Sprintf("%q", e.Name)
	case "sel":
		return e.Args[0].String() + "." + e.Name
	case "idx":
		return e.Args[0].String() + "[" + e.Args[1].String() + "]"
	case "slice":
		return e.Args[0].String() + "[" + e.Args[1].String() + ".." + e.Args[2].String() + "]"
	case "call":
		var as []string
		for _, a := range e.Args[1:] {
			as = append(as, a.String())
		}
		return e.Args[0].String() + "(" + strings.Join(as, ", ") + ")"
	case "old":
		return "old(" + e.Args[0].String() + ")"
	case "un":
		return e.Name + e.Args[0].String()
	case "bin":
		return "(" + e.Args[0].String() + " " + e.Name + " " + e.Args[1].String() + ")"
	case "forall", "exists":
		var vs []string
		for _, v := range e.Vars {
			if v.Type != "" {
				vs = append(vs, v.Name+": "+v.Type)
			} else {
				vs = append(vs, v.Name)
			}
		}
		return "(" + e.Op + " " + strings.Join(vs, ", ") + " :: " + e.Args[0].String() + ")"
	}
	return "?"
}

type ctok struct {
	kind string // id int str op eof
	text string
	pos  int
}

func clex(s string) ([]ctok, error) {
	var out []ctok
	i := 0
	for i < len(s) {
		c := s[i]
		switch {
		case c == ' ' || c == '\t' || c == '\n':
			i++
		case unicode.IsLetter(rune(c)) || c == '_':
			j := i
			for j < len(s) && (unicode.IsLetter(rune(s[j])) || unicode.IsDigit(rune(s[j])) || s[j] == '_') {
				j++
			}
			out = append(out, ctok{"id", s[i:j], i})
			i = j
		case c >= '0' && c <= '9':
			j := i
			for j < len(s) && (s[j] >= '0' && s[j] <= '9') {
				j++
			}
			out = append(out, ctok{"int", s[i:j], i})
			i = j
		case c == '"':
			j := i + 1
			var sb strings.Builder
			for j < len(s) && s[j] != '"' {
				if s[j] == '\\' && j+1 < len(s) {
					j++
					switch s[j] {
					case 'n':
						sb.WriteByte('\n')
					case 't':
						sb.WriteByte('\t')
					case 'r':
						sb.WriteByte('\r')
					default:
						sb.WriteByte(s[j])
					}
					j++
					continue
				}
				sb.WriteByte(s[j])
				j++
			}
			if j >= len(s) {
				return nil, fmt.Errorf("unterminated string at %d", i)
			}
			out = append(out, ctok{"str", sb.String(), i})
			i = j + 1
		case c == '\'':
			// rune literal
			j := i + 1
			var r byte
			if j < len(s) && s[j] == '\\' && j+1 < len(s) {
				switch s[j+1] {
				case 'n':
					r = '\n'
				case 't':
					r = '\t'
				case 'r':
					r = '\r'
				default:
					r = s[j+1]
				}
				j += 2
			} else if j < len(s) {
				r = s[j]
				j++
			}
			if j >= len(s) || s[j] != '\'' {
				return nil, fmt.Errorf("bad rune literal at %d", i)
			}
			out = append(out, ctok{"int", fmt.Sprint(int(r)), i})
			i = j + 1
		default:
			ops := []string{"<==>", "==>", "::", "..", "==", "!=", "<=", ">=", "&&", "||", "<", ">", "+", "-", "*", "/", "%", "!", "(", ")", "[", "]", ".", ",", ":"}
			matched := false
			for _, op := range ops {
				if strings.HasPrefix(s[i:], op) {
					out = append(out, ctok{"op", op, i})
					i += len(op)
					matched = true
					break
				}
			}
			if !matched {
				return nil, fmt.Errorf("unexpected character %q at %d in %q", c, i, s)
			}
		}
	}
	out = append(out, ctok{"eof", "", len(s)})
	return out, nil
}

type cparser struct {
	toks []ctok
	i    int
	src  string
}

func parseCExpr(s string) (e *CExpr, err error) {
	toks, err := clex(s)
	if err != nil {
		return nil, err
	}
	p := &cparser{toks: toks, src: s}
	defer func() {
		if r := recover(); r != nil {
			if pe, ok := r.(cperr); ok {
				e, err = nil, fmt.Errorf("%s in %q", string(pe), s)
				return
			}
			panic(r)
		}
	}()
	e = p.expr()
	if p.peek().kind != "eof" {
		p.fail("unexpected token %q", p.peek().text)
	}
	return e, nil
}

type cperr string

func (p *cparser) fail(f string, a ...interface{}) {
	panic(cperr(fmt.Sprintf(f, a...) + fmt.Sprintf(" at offset %d", p.peek().pos)))
}
func (p *cparser) peek() ctok { return p.toks[p.i] }
func (p *cparser) next() ctok { t := p.toks[p.i]; p.i++; return t }
func (p *cparser) isOp(s string) bool {
	t := p.peek()
	return t.kind == "op" && t.text == s
}
func (p *cparser) eat(s string) bool {
	if p.isOp(s) {
		p.i++
		return true
	}
	return false
}
func (p *cparser) expect(s string) {
	if !p.eat(s) {
		p.fail("expected %q but got %q", s, p.peek().text)
	}
}

func (p *cparser) expr() *CExpr {
	t := p.peek()
	if t.kind == "id" && (t.text == "forall" || t.text == "exists") {
		p.next()
		var vars []cvar
		for {
			id := p.next()
			if id.kind != "id" {
				p.fail("expected bound variable")
			}
			v := cvar{Name: id.text}
			if p.eat(":") {
				ty := p.next()
				v.Type = ty.text
				// allow *T, []T spelled with ops
				for p.peek().kind != "eof" && !p.isOp(",") && !p.isOp("::") {
					v.Type += p.next().text
				}
			}
			vars = append(vars, v)
			if !p.eat(",") {
				break
			}
		}
		p.expect("::")
		body := p.expr()
		return &CExpr{Op: t.text, Vars: vars, Args: []*CExpr{body}, Pos: t.pos}
	}
	return p.imp()
}

func (p *cparser) imp() *CExpr {
	l := p.or()
	if p.isOp("==>") {
		t := p.next()
		r := p.impRHS()
		return &CExpr{Op: "bin", Name: "==>", Args: []*CExpr{l, r}, Pos: t.pos}
	}
	if p.isOp("<==>") {
		t := p.next()
		r := p.impRHS()
		return &CExpr{Op: "bin", Name: "<==>", Args: []*CExpr{l, r}, Pos: t.pos}
	}
	return l
}

func (p *cparser) impRHS() *CExpr {
	t := p.peek()
	if t.kind == "id" && (t.text == "forall" || t.text == "exists") {
		return p.expr()
	}
	return p.imp()
}

func (p *cparser) or() *CExpr {
	l := p.and()
	for p.isOp("||") {
		t := p.next()
		r := p.and()
		l = &CExpr{Op: "bin", Name: "||", Args: []*CExpr{l, r}, Pos: t.pos}
	}
	return l
}

func (p *cparser) and() *CExpr {
	l := p.cmp()
	for p.isOp("&&") {
		t := p.next()
		r := p.cmp()
		l = &CExpr{Op: "bin", Name: "&&", Args: []*CExpr{l, r}, Pos: t.pos}
	}
	return l
}

func isCmp(s string) bool {
	switch s {
	case "==", "!=", "<", "<=", ">", ">=":
		return true
	}
	return false
}

func (p *cparser) cmp() *CExpr {
	l := p.add()
	var res *CExpr
	for p.peek().kind == "op" && isCmp(p.peek().text) {
		t := p.next()
		r := p.add()
		c := &CExpr{Op: "bin", Name: t.text, Args: []*CExpr{l, r}, Pos: t.pos}
		if res == nil {
			res = c
		} else {
			res = &CExpr{Op: "bin", Name: "&&", Args: []*CExpr{res, c}, Pos: t.pos}
		}
		l = r
	}
	if res != nil {
		return res
	}
	return l
}

func (p *cparser) add() *CExpr {
	l := p.mul()
	for p.isOp("+") || p.isOp("-") {
		t := p.next()
		r := p.mul()
		l = &CExpr{Op: "bin", Name: t.text, Args: []*CExpr{l, r}, Pos: t.pos}
	}
	return l
}

func (p *cparser) mul() *CExpr {
	l := p.unary()
	for p.isOp("*") || p.isOp("/") || p.isOp("%") {
		t := p.next()
		r := p.unary()
		l = &CExpr{Op: "bin", Name: t.text, Args: []*CExpr{l, r}, Pos: t.pos}
	}
	return l
}

func (p *cparser) unary() *CExpr {
	if p.isOp("!") || p.isOp("-") {
		t := p.next()
		x := p.unary()
		return &CExpr{Op: "un", Name: t.text, Args: []*CExpr{x}, Pos: t.pos}
	}
	return p.postfix()
}

func (p *cparser) postfix() *CExpr {
	x := p.primary()
	for {
		switch {
		case p.isOp("."):
			p.next()
			id := p.next()
			if id.kind != "id" {
				p.fail("expected field name")
			}
			x = &CExpr{Op: "sel", Name: id.text, Args: []*CExpr{x}, Pos: id.pos}
		case p.isOp("["):
			t := p.next()
			i := p.expr()
			if p.eat("..") {
				j := p.expr()
				p.expect("]")
				x = &CExpr{Op: "slice", Args: []*CExpr{x, i, j}, Pos: t.pos}
			} else {
				p.expect("]")
				x = &CExpr{Op: "idx", Args: []*CExpr{x, i}, Pos: t.pos}
			}
		case p.isOp("("):
			t := p.next()
			args := []*CExpr{x}
			if !p.isOp(")") {
				for {
					args = append(args, p.expr())
					if !p.eat(",") {
						break
					}
				}
			}
			p.expect(")")
			if x.Op == "id" && x.Name == "old" && len(args) == 2 {
				x = &CExpr{Op: "old", Args: args[1:], Pos: t.pos}
			} else {
				x = &CExpr{Op: "call", Args: args, Pos: t.pos}
			}
		default:
			return x
		}
	}
}

func (p *cparser) primary() *CExpr {
	t := p.next()
	switch t.kind {
	case "id":
		switch t.text {
		case "nil", "true", "false", "result":
			return &CExpr{Op: t.text, Name: t.text, Pos: t.pos}
		}
		return &CExpr{Op: "id", Name: t.text, Pos: t.pos}
	case "int":
		return &CExpr{Op: "int", Name: t.text, Pos: t.pos}
	case "str":
		return &CExpr{Op: "str", Name: t.text, Pos: t.pos}
	case "op":
		if t.text == "(" {
			e := p.expr()
			p.expect(")")
			return e
		}
	}
	p.i--
	p.fail("unexpected token %q", t.text)
	return nil
}
