package main

// Bounded stand-ins: where a whole-language statement (sentence-level grammar equivalence, "iff
// cyclic" over all graphs) is beyond the deductive part, the same statement is checked at run time
// on the real code over an exhaustively enumerated space with a stated bound. The harnesses are Go
// tests in /verif/bounded/*.go.txt injected with `go test -overlay`; nothing is written to /repo.
// Results are labelled "bounded" in the evidence and never counted as proved.

import (
	"bufio"
	"encoding/json"
	"fmt"
	"os"
	"os/exec"
	"path/filepath"
	"strings"
	"time"
)

type BoundedResult struct {
	Ran       bool          `json:"ran"`
	Harness   string        `json:"harness"`
	Bound     string        `json:"bound"`
	Cases     int           `json:"cases"`
	Distinct  int           `json:"distinct_nontrivial"`
	Failures  []interface{} `json:"failures"`
	Samples   []interface{} `json:"samples"`
	WallS     float64       `json:"wall_s"`
	Error     string        `json:"error,omitempty"`
	Known     []string      `json:"known,omitempty"`
}

// runBounded runs the bounded harness of a property (if any).
func runBounded(repo, vdir, prop, tier string, seed int) *BoundedResult {
	src := filepath.Join(vdir, "bounded", strings.ToLower(prop)+"_test.go.txt")
	if _, err := os.Stat(src); err != nil {
		return nil
	}
	start := time.Now()
	res := &BoundedResult{Ran: true, Harness: src}
	work, err := os.MkdirTemp("", "govc-bounded")
	if err != nil {
		res.Error = err.Error()
		return res
	}
	defer os.RemoveAll(work)
	ov := map[string]map[string]string{"Replace": {filepath.Join(repo, "zz_verif_bounded_test.go"): src}}
	data, _ := json.Marshal(ov)
	ovPath := filepath.Join(work, "overlay.json")
	os.WriteFile(ovPath, data, 0o644)
	timeout := "150s"
	if tier == "thorough" {
		timeout = "1500s"
	}
	cmd := exec.Command("go", "test", "-overlay", ovPath, "-vet=off", "-count=1", "-timeout", timeout, "-run", "^TestVerifBounded"+prop+"$", "-v", ".")
	cmd.Dir = repo
	cmd.Env = append(os.Environ(), "GOFLAGS=-mod=mod", "GOPROXY=off", "GOSUMDB=off", "GOTOOLCHAIN=local",
		fmt.Sprintf("VERIF_SEED=%d", seed), "VERIF_TIER="+tier)
	out, err := cmd.CombinedOutput()
	res.WallS = time.Since(start).Seconds()
	found := false
	sc := bufio.NewScanner(strings.NewReader(string(out)))
	sc.Buffer(make([]byte, 1<<20), 1<<26)
	for sc.Scan() {
		l := strings.TrimSpace(sc.Text())
		if i := strings.Index(l, "BOUNDED-RESULT "); i >= 0 {
			var r struct {
				Bound    string        `json:"bound"`
				Cases    int           `json:"cases"`
				Distinct int           `json:"distinct"`
				Failures []interface{} `json:"failures"`
				Samples  []interface{} `json:"samples"`
			}
			if json.Unmarshal([]byte(l[i+len("BOUNDED-RESULT "):]), &r) == nil {
				res.Bound, res.Cases, res.Distinct, res.Failures, res.Samples = r.Bound, r.Cases, r.Distinct, r.Failures, r.Samples
				found = true
			}
		}
	}
	if !found {
		tail := string(out)
		if len(tail) > 3000 {
			tail = tail[len(tail)-3000:]
		}
		if strings.Contains(string(out), "panic: test timed out") {
			// the code under test did not finish on some enumerated input (the harness itself needs
			// seconds): a hang is a violation of the property, reported with the goroutine dump
			res.Bound = "enumeration interrupted by the test timeout of " + timeout
			res.Failures = []interface{}{map[string]interface{}{
				"key":    "timeout",
				"reason": "the harness did not finish within " + timeout + " (normally a few seconds): the code under test does not terminate on one of the enumerated inputs",
				"output": tail,
			}}
			return res
		}
		res.Error = "harness produced no result: " + tail
		if err != nil {
			res.Error = err.Error() + ": " + res.Error
		}
	}
	return res
}
