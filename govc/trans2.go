package main

import (
	"fmt"
	"os"
	"go/ast"

	"golang.org/x/tools/go/ast/astutil"
	"go/token"
	"go/types"
	"sort"
	"strings"

	"golang.org/x/tools/go/ssa"
)

func newVC(e *Engine, fn *ssa.Function, opts *Options) *VC {
	vc := &VC{e: e, fn: fn, opts: opts}
	vc.con = e.cs.Funcs[e.fname(fn)]
	return vc
}

func (vc *VC) reset() {
	vc.decls = nil
	vc.declared = map[string]bool{}
	vc.items = nil
	vc.obls = nil
	vc.nameCnt = map[string]int{}
	vc.val = map[ssa.Value]Term{}
	vc.lv = map[ssa.Value]*LV{}
	vc.tuple = map[ssa.Value][]Term{}
	vc.reach = map[int]Term{}
	vc.edges = map[[2]int]Term{}
	vc.hout = map[int]*Heap{}
	vc.hin = map[int]*Heap{}
	vc.nfresh = 0
	vc.strLits = map[string]Term{}
	vc.litTerms = map[Term]bool{"empty_str": true}
	vc.strOrder = nil
	vc.fltLits = map[string]int{}
	vc.unsupported = nil
	vc.notes = nil
	vc.usedTrusted = map[string]bool{}
	vc.usedLib = map[string]bool{}
	vc.topo = nil
	vc.loopHeads = nil
	vc.hdrState = map[int]*hdrInfo{}
	vc.deferred = nil
	vc.factSeen = map[string]bool{}
	vc.loopSpecs = map[int]*LoopSpec{}
	vc.params = map[string]ssa.Value{}
	vc.fromField = map[ssa.Value]string{}
	vc.addrVars = map[ssa.Value]bool{}
}

// Generate runs the translation (two passes: the first discovers the heap arrays).
func (vc *VC) Generate() {
	vc.arrays = map[string]bool{}
	vc.arrSort = map[string]string{}
	for pass := 1; pass <= 2; pass++ {
		vc.pass = pass
		vc.reset()
		vc.translate()
	}
}

func (vc *VC) translate() {
	fn := vc.fn
	if !vc.prepareCFG() {
		return
	}
	vc.computeAddrOnly()
	vc.bindLoops()
	// entry heap
	h := &Heap{arr: map[string]Term{}}
	names := make([]string, 0, len(vc.arrays))
	for n := range vc.arrays {
		names = append(names, n)
	}
	sort.Strings(names)
	for _, n := range names {
		t := sym(n + "!0")
		vc.declare(t, vc.arrSort[n])
		h.arr[n] = t
	}
	vc.declare("alloc!0", SInt)
	h.alloc = "alloc!0"
	vc.entry = h
	vc.cur = h.clone()
	vc.fact(Ge("alloc!0", "0"))
	vc.rb = "true"

	// parameters
	for _, p := range fn.Params {
		n := sym("p:" + p.Name())
		vc.declare(n, vc.e.sortOf(p.Type()))
		vc.val[p] = n
		vc.params[p.Name()] = p
		vc.fact(vc.typeFacts(n, p.Type()))
	}
	for _, fv := range fn.FreeVars {
		n := sym("fv:" + fv.Name())
		vc.declare(n, SInt)
		vc.val[fv] = n
		vc.params[fv.Name()] = fv
		vc.fact(And(Ne(n, "0"), Le(n, "alloc!0")))
	}
	// named results
	if fn.Signature.Results() != nil {
		for i := 0; i < fn.Signature.Results().Len(); i++ {
			vc.retNames = append(vc.retNames, fn.Signature.Results().At(i).Name())
		}
	}
	// preconditions
	if vc.con != nil {
		ce := vc.envEntry()
		for _, c := range vc.con.Requires {
			ce.err = nil
			t := ce.evalTop(c.Expr, false)
			if ce.err != nil {
				vc.unsupp("requires %q: %v", c.Text, ce.err)
				continue
			}
			vc.fact(t.t)
		}
	}
	vc.assumeAxioms()
	if vc.con != nil {
		for _, name := range vc.con.Uses {
			lm := vc.e.cs.Lemmas[name]
			if lm == nil {
				vc.unsupp("unknown lemma %s", name)
				continue
			}
			ce := &cenv{vc: vc, vars: map[string]cval{}, heap: vc.entry}
			t := ce.eval(lm.Expr)
			if ce.err != nil {
				vc.unsupp("lemma %s: %v", name, ce.err)
				continue
			}
			vc.fact(t.t)
			vc.usedTrusted["spec axiom "+name+": "+lm.Text] = true
		}
	}
	if vc.con != nil {
		for _, h := range vc.con.Hints {
			ce := vc.envEntry()
			t := ce.eval(h.Expr)
			if ce.err != nil {
				vc.unsupp("hint %q: %v", h.Text, ce.err)
				continue
			}
			vc.fact(t.t)
		}
	}
	vc.items = append(vc.items, &item{probe: true})
	if vc.con != nil {
		for _, fc := range vc.con.ForbidCalls {
			cond, pos := Term("true"), token.NoPos
			for _, b := range vc.fn.Blocks {
				for _, ins := range b.Instrs {
					if vc.matchesBodyCall(ins, fc.Fn) {
						cond, pos = "false", ins.Pos()
					}
				}
			}
			pr := fc.Props
			if len(pr) == 0 {
				pr = vc.con.Props
			}
			vc.checkG("forbid-call", pos, fc.Fn, "true", cond, pr)
		}
	}
	if vc.con != nil && len(vc.con.Effects) > 0 {
		saved := vc.con.FreshWrites
		vc.con.FreshWrites = nil
		vc.applyEffects(vc.con, vc.envEntry(), token.NoPos)
		vc.con.FreshWrites = saved
	}

	for _, b := range vc.topo {
		vc.block(b)
	}
	// string literal distinctness
	if len(vc.strOrder) > 0 {
		var ts []Term
		ts = append(ts, "empty_str")
		for _, s := range vc.strOrder {
			ts = append(ts, vc.strLits[s])
		}
		vc.decls = append(vc.decls, "(assert (distinct "+strings.Join(ts, " ")+"))")
	}
}

func (vc *VC) assumeAxioms() {
	for _, ax := range vc.e.cs.Axioms {
		ce := &cenv{vc: vc, vars: map[string]cval{}, heap: vc.cur}
		t := ce.eval(ax.Expr)
		if ce.err != nil {
			vc.unsupp("axiom %q: %v", ax.Text, ce.err)
			continue
		}
		vc.fact(t.t)
	}
}

func (vc *VC) envEntry() *cenv {
	ce := &cenv{vc: vc, vars: map[string]cval{}, heap: vc.entry, old: vc.entry, allocOld: "alloc!0"}
	for name, p := range vc.params {
		if fv, ok := p.(*ssa.FreeVar); ok {
			// captured variable: its value is the content of the cell
			t := deref(fv.Type())
			n, s := vc.e.cellArr(t)
			ce.vars[name] = cval{t: Sel(vc.arrIn(vc.entry, n, s), vc.val[p]), typ: t}
			continue
		}
		ce.vars[name] = cval{t: vc.val[p], typ: p.Type()}
		ce.vars[name+"0"] = ce.vars[name]
	}
	return ce
}

// computeAddrOnly marks FieldAddr/IndexAddr values that are only used as load/store addresses.
func (vc *VC) computeAddrOnly() {
	vc.addrOnly = map[ssa.Value]bool{}
	for _, b := range vc.fn.Blocks {
		for _, ins := range b.Instrs {
			v, ok := ins.(ssa.Value)
			if !ok {
				continue
			}
			switch ins.(type) {
			case *ssa.FieldAddr, *ssa.IndexAddr:
			default:
				continue
			}
			only := true
			for _, r := range *v.Referrers() {
				switch u := r.(type) {
				case *ssa.UnOp:
					if u.Op != token.MUL {
						only = false
					}
				case *ssa.Store:
					if u.Addr != v {
						only = false
					}
				case *ssa.FieldAddr:
				case *ssa.IndexAddr:
				case *ssa.DebugRef:
				default:
					only = false
				}
			}
			vc.addrOnly[v] = only
		}
	}
	// escape points of locally allocated structs (for the non-nil field discipline)
	vc.escBefore = map[ssa.Instruction][]*ssa.Alloc{}
	vc.escAtEnd = map[int][]*ssa.Alloc{}
	for _, b := range vc.fn.Blocks {
		for _, ins := range b.Instrs {
			al, ok := ins.(*ssa.Alloc)
			if !ok || !isStruct(deref(al.Type())) || !vc.hasNonNilFields(deref(al.Type())) {
				continue
			}
			for _, r := range *al.Referrers() {
				switch u := r.(type) {
				case *ssa.FieldAddr, *ssa.DebugRef:
				case *ssa.Store:
					if u.Val == ssa.Value(al) {
						vc.escBefore[r] = append(vc.escBefore[r], al)
					}
				case *ssa.Phi:
					for j, e := range u.Edges {
						if e == ssa.Value(al) {
							pb := u.Block().Preds[j]
							vc.escAtEnd[pb.Index] = append(vc.escAtEnd[pb.Index], al)
						}
					}
				case *ssa.MakeInterface:
					// handed to a library function as `any` (a decoder filling the object): the library does not
					// rely on the package's field invariants; the object is checked where the package publishes it
					if vc.onlyLibraryCalls(u) {
						continue
					}
					vc.escBefore[r] = append(vc.escBefore[r], al)
				default:
					if ci, ok := r.(ssa.CallInstruction); ok && vc.isLibraryCall(ci) {
						continue
					}
					vc.escBefore[r] = append(vc.escBefore[r], al)
				}
			}
		}
	}
}

func (vc *VC) isLibraryCall(ci ssa.CallInstruction) bool {
	g := ci.Common().StaticCallee()
	return g != nil && g.Pkg != vc.e.pkg && !ci.Common().IsInvoke()
}

func (vc *VC) onlyLibraryCalls(v ssa.Value) bool {
	refs := v.Referrers()
	if refs == nil || len(*refs) == 0 {
		return false
	}
	for _, r := range *refs {
		if _, ok := r.(*ssa.DebugRef); ok {
			continue
		}
		ci, ok := r.(ssa.CallInstruction)
		if !ok || !vc.isLibraryCall(ci) {
			return false
		}
	}
	return true
}

func (vc *VC) hasNonNilFields(t types.Type) bool {
	st := t.Underlying().(*types.Struct)
	for i := 0; i < st.NumFields(); i++ {
		if vc.e.cs.NonNilField[vc.nonNilKeyField(t, i)] {
			return true
		}
		if isStruct(st.Field(i).Type()) && vc.hasNonNilFields(st.Field(i).Type()) {
			return true
		}
	}
	return false
}

func (vc *VC) escapeChecks(allocs []*ssa.Alloc, pos token.Pos) {
	for _, al := range allocs {
		a, ok := vc.val[al]
		if !ok {
			continue
		}
		vc.nonNilInit(a, deref(al.Type()), al, pos)
	}
}

func (vc *VC) nonNilInit(ref Term, t types.Type, al *ssa.Alloc, pos token.Pos) {
	st := t.Underlying().(*types.Struct)
	for i := 0; i < st.NumFields(); i++ {
		f := st.Field(i)
		if isStruct(f.Type()) {
			vc.nonNilInit(vc.embPtr(t, i, ref), f.Type(), al, pos)
			continue
		}
		key := vc.nonNilKeyField(t, i)
		if !vc.e.cs.NonNilField[key] {
			continue
		}
		n, s, _ := vc.e.fieldArr(t, i)
		cur := Sel(vc.arrCur(n, s), ref)
		txt := vc.exprText(al.Pos())
		if txt == "" {
			txt = vc.e.typeName(t)
		}
		vc.check("nonnil-init", pos, key+" of "+txt, Not(vc.isNil(cur, f.Type())), append(append([]string{}, vc.safetyProps()...), vc.e.cs.NonNilFieldProps[key]...))
	}
}

// ------------------------------------------------------------------------------------------
// loops

type loopSrc struct {
	pos  token.Pos
	text string
}

// bindLoops associates loop headers with source loops and contract loop specs.
func (vc *VC) bindLoops() {
	if len(vc.loopHeads) == 0 {
		return
	}
	// collect source loops of the function
	var srcLoops []ast.Node
	if syn := vc.fn.Syntax(); syn != nil {
		ast.Inspect(syn, func(n ast.Node) bool {
			switch n.(type) {
			case *ast.ForStmt, *ast.RangeStmt:
				srcLoops = append(srcLoops, n)
			case *ast.FuncLit:
				if n != syn {
					return false
				}
			}
			return true
		})
	}
	// source line of a loop that is not nested in another loop (0 for nested ones)
	loopLine := func(l ast.Node) int {
		for _, o := range srcLoops {
			if o != l && o.Pos() <= l.Pos() && l.End() <= o.End() {
				return 0
			}
		}
		return vc.e.prog.Fset.Position(l.Pos()).Line
	}
	// map header -> source loop: the innermost source loop containing the position of any instruction of the header
	hdrLoop := map[int]ast.Node{}
	for _, h := range vc.loopHeads {
		var best ast.Node
		// use positions in all loop blocks: the source loop is the smallest one containing all of them... use header-first heuristic
		cands := map[ast.Node]int{}
		for _, b := range vc.fn.Blocks {
			if !vc.loopBlks[h][b.Index] {
				continue
			}
			for _, ins := range b.Instrs {
				p := ins.Pos()
				if _, isPhi := ins.(*ssa.Phi); isPhi || !p.IsValid() {
					continue // a phi carries the position of the variable's declaration
				}
				for _, l := range srcLoops {
					if l.Pos() <= p && p <= l.End() {
						cands[l]++
					}
				}
			}
		}
		// the outermost source loop that contains every positioned instruction of the natural loop
		// is ambiguous for nested loops; choose the smallest source loop containing the most instructions
		max := 0
		for _, n := range cands {
			if n > max {
				max = n
			}
		}
		for l, n := range cands {
			if n == max {
				if best == nil || (l.End()-l.Pos()) < (best.End()-best.Pos()) {
					best = l
				}
			}
		}
		if best != nil {
			hdrLoop[h] = best
		}
	}
	vc.hdrSrc = hdrLoop
	textOf := func(n ast.Node) string {
		switch l := n.(type) {
		case *ast.ForStmt:
			if l.Cond != nil {
				return types.ExprString(l.Cond)
			}
			return "for"
		case *ast.RangeStmt:
			return "range " + types.ExprString(l.X)
		}
		return ""
	}
	if vc.con == nil {
		for _, h := range vc.loopHeads {
			if l := hdrLoop[h]; l != nil {
				vc.bareLoops = append(vc.bareLoops, textOf(l))
				vc.bareLoopAt = append(vc.bareLoopAt, loopLine(l))
			}
		}
		return
	}
	// ordinal among loops with equal text, in source order
	sort.Slice(srcLoops, func(i, j int) bool { return srcLoops[i].Pos() < srcLoops[j].Pos() })
	ord := map[ast.Node]int{}
	cnt := map[string]int{}
	for _, l := range srcLoops {
		t := textOf(l)
		cnt[t]++
		ord[l] = cnt[t]
	}
	if os.Getenv("GOVC_DEBUG_LOOPS") != "" {
		for _, h := range vc.loopHeads {
			if l := hdrLoop[h]; l != nil {
				fmt.Fprintf(os.Stderr, "%s: header %d -> %q #%d\n", vc.e.fname(vc.fn), h, textOf(l), ord[l])
			} else {
				fmt.Fprintf(os.Stderr, "%s: header %d -> (none)\n", vc.e.fname(vc.fn), h)
			}
		}
	}
	for _, ls := range vc.con.Loops {
		for _, h := range vc.loopHeads {
			l := hdrLoop[h]
			if l == nil {
				continue
			}
			if textOf(l) == ls.Key && (ls.Ordinal == 0 || ls.Ordinal == ord[l]) {
				if _, taken := vc.loopSpecs[h]; !taken {
					vc.loopSpecs[h] = ls
					break
				}
			}
		}
	}
	var unbound []*LoopSpec
	for _, ls := range vc.con.Loops {
		found := false
		for _, x := range vc.loopSpecs {
			if x == ls {
				found = true
			}
		}
		if found {
			continue
		}
		// the header text of the loop was edited: bind the contract to the most similar loop that has
		// no contract of its own, so that its obligations are still generated (under their old names)
		// instead of silently disappearing
		best, bestSim := -1, 0.0
		for _, h := range vc.loopHeads {
			l := hdrLoop[h]
			if l == nil {
				continue
			}
			if _, taken := vc.loopSpecs[h]; taken {
				continue
			}
			if sim := similarity(textOf(l), ls.Key); sim > bestSim {
				best, bestSim = h, sim
			}
		}
		if best >= 0 && bestSim >= 0.7 {
			vc.loopSpecs[best] = ls
			vc.notes = append(vc.notes, fmt.Sprintf("loop spec %q bound to the similar loop %q", ls.Key, textOf(hdrLoop[best])))
			continue
		}
		unbound = append(unbound, ls)
	}
	// a loop whose header was rewritten beyond recognition (`range n.Content` -> `range elems`): when exactly
	// one contract loop and exactly one source loop of the same form are left over, they belong together
	if len(unbound) == 1 {
		var free []int
		for _, h := range vc.loopHeads {
			if l := hdrLoop[h]; l != nil && vc.loopSpecs[h] == nil {
				free = append(free, h)
			}
		}
		if len(free) == 1 && strings.HasPrefix(textOf(hdrLoop[free[0]]), "range ") == strings.HasPrefix(unbound[0].Key, "range ") {
			vc.loopSpecs[free[0]] = unbound[0]
			vc.notes = append(vc.notes, fmt.Sprintf("loop spec %q bound to the only loop without contract, %q", unbound[0].Key, textOf(hdrLoop[free[0]])))
			unbound = nil
		}
	}
	for _, ls := range unbound {
		vc.notes = append(vc.notes, fmt.Sprintf("loop spec %q not bound to any loop", ls.Key))
	}
	// texts of the loops that carry no contract (the ledger remembers those of the pinned tree)
	for _, h := range vc.loopHeads {
		if l := hdrLoop[h]; l != nil && vc.loopSpecs[h] == nil {
			vc.bareLoops = append(vc.bareLoops, textOf(l))
			vc.bareLoopAt = append(vc.bareLoopAt, loopLine(l))
		}
	}
}

// similarity: 2*LCS(a,b)/(len(a)+len(b)).
func similarity(a, b string) float64 {
	if len(a) == 0 || len(b) == 0 {
		return 0
	}
	prev := make([]int, len(b)+1)
	cur := make([]int, len(b)+1)
	for i := 1; i <= len(a); i++ {
		for j := 1; j <= len(b); j++ {
			switch {
			case a[i-1] == b[j-1]:
				cur[j] = prev[j-1] + 1
			case prev[j] >= cur[j-1]:
				cur[j] = prev[j]
			default:
				cur[j] = cur[j-1]
			}
		}
		prev, cur = cur, prev
	}
	return 2 * float64(prev[len(b)]) / float64(len(a)+len(b))
}

// namesAt resolves source variable names visible at the header of loop h to SSA values.
func (vc *VC) namesAt(b *ssa.BasicBlock) map[string]ssa.Value {
	// Go scoping: a name denotes the object visible at the end of the body of the innermost source
	// loop containing b (so that shadowed variables of other scopes are not confused)
	pos := token.NoPos
	if vc.evalPos.IsValid() {
		pos = vc.evalPos // names are resolved as Go would at this point of the source
	} else if h := vc.innermostLoop(b.Index); h >= 0 {
		switch l := vc.hdrSrc[h].(type) {
		case *ast.ForStmt:
			pos = l.Body.Rbrace
		case *ast.RangeStmt:
			pos = l.Body.Rbrace
		}
	}
	var scope *types.Scope
	if pos.IsValid() {
		scope = vc.e.tpkg.Scope().Innermost(pos)
	}
	visible := func(name string, obj types.Object, declPos token.Pos) bool {
		if scope == nil {
			return true
		}
		_, o := scope.LookupParent(name, pos)
		if o == nil {
			return false
		}
		if obj != nil {
			return o == obj
		}
		return o.Pos() == declPos
	}
	out := map[string]ssa.Value{}
	addrOf := vc.addrVars
	// walk dominator chain from b upward; nearer definitions win
	for x := b; x != nil; x = x.Idom() {
		// phis with comments (in block order), debug refs in reverse
		local := map[string]ssa.Value{}
		for _, ins := range x.Instrs {
			switch p := ins.(type) {
			case *ssa.Phi:
				if p.Comment != "" && visible(p.Comment, nil, p.Pos()) {
					if _, ok := local[p.Comment]; !ok {
						local[p.Comment] = p
					}
				}
			}
		}
		if x != b || vc.loopBlks[b.Index] == nil {
			start := len(x.Instrs) - 1
			if x == vc.blk && vc.curIdx >= 0 && vc.curIdx < len(x.Instrs) {
				start = vc.curIdx // only what has been executed so far in the current block
			}
			for i := start; i >= 0; i-- {
				if d, ok := x.Instrs[i].(*ssa.DebugRef); ok {
					if id, ok := d.Expr.(*ast.Ident); ok && visible(id.Name, d.Object(), token.NoPos) {
						if _, ok := local[id.Name]; !ok {
							if d.IsAddr {
								// a variable kept in memory: d.X is its address
								if _, isAlloc := d.X.(*ssa.Alloc); isAlloc {
									local[id.Name] = d.X
									addrOf[d.X] = true
								}
								continue
							}
							// a later phi in the same block does not exist (phis come first), so the last debug ref wins
							local[id.Name] = debugRefValue(x, i, d)
						}
					}
				}
			}
		}
		for k, v := range local {
			if _, ok := out[k]; !ok {
				out[k] = v
			}
		}
	}
	for name, p := range vc.params {
		if _, ok := out[name]; !ok {
			out[name] = p
		}
	}
	return out
}

// envAt builds a contract environment for block b with the given heap and value substitution.
func (vc *VC) envAt(b *ssa.BasicBlock, heap *Heap, sub map[ssa.Value]Term) *cenv {
	ce := &cenv{vc: vc, vars: map[string]cval{}, heap: heap, old: vc.entry, allocOld: "alloc!0"}
	for name, v := range vc.namesAt(b) {
		var t Term
		if s, ok := sub[v]; ok {
			t = s
		} else {
			t = vc.v(v)
		}
		if fv, ok := v.(*ssa.FreeVar); ok {
			ty := deref(fv.Type())
			n, s := vc.e.cellArr(ty)
			ce.vars[name] = cval{t: Sel(vc.arrIn(heap, n, s), t), typ: ty}
			continue
		}
		if l, isLV := vc.lv[v]; isLV {
			if l.arr != "" && isStruct(deref(v.Type())) {
				ce.vars[name] = cval{t: t, typ: v.Type(), lv: l}
			}
			continue
		}
		if vc.addrVars[v] {
			// the name denotes the content of the variable's memory cell
			et := deref(v.Type())
			if isStruct(et) {
				ce.vars[name] = cval{t: t, typ: et, atRef: true}
			} else {
				n, s := vc.e.cellArr(et)
				ce.vars[name] = cval{t: Sel(vc.arrIn(heap, n, s), t), typ: et}
			}
			continue
		}
		ce.vars[name] = cval{t: t, typ: v.Type()}
	}
	// variables bound by enclosing type switches (`switch x := e.(type)`): go/ssa records them only
	// where they are used; resolve them from the switch itself
	if vc.evalPos.IsValid() {
		vc.typeSwitchNames(ce, vc.evalPos)
	}
	// entry values of parameters: <name>0
	for name, p := range vc.params {
		if _, isFV := p.(*ssa.FreeVar); isFV {
			continue
		}
		if _, clash := ce.vars[name+"0"]; !clash {
			ce.vars[name+"0"] = cval{t: vc.val[p], typ: p.Type()}
		}
	}
	// names for range loops: range_i (index of the last completed iteration, -1 before the first),
	// range_x (the slice/string/map ranged over), visited(k) for map ranges
	if vc.loopBlks[b.Index] != nil {
		for _, ins := range b.Instrs {
			switch x := ins.(type) {
			case *ssa.Phi:
				if x.Comment == "rangeindex" {
					t, ok := sub[x]
					if !ok {
						t = vc.v(x)
					}
					ce.vars["range_i"] = cval{t: t, typ: x.Type()}
				}
			case *ssa.BinOp:
				if x.Op == token.LSS {
					if c, ok := x.Y.(*ssa.Call); ok {
						if bi, ok := c.Call.Value.(*ssa.Builtin); ok && bi.Name() == "len" {
							a := c.Call.Args[0]
							ce.vars["range_x"] = cval{t: vc.v(a), typ: a.Type()}
						}
					}
				}
			case *ssa.Next:
				if r, ok := x.Iter.(*ssa.Range); ok {
					ce.vars["range_x"] = cval{t: vc.v(r.X), typ: r.X.Type()}
					if mt, ok := r.X.Type().Underlying().(*types.Map); ok {
						n := vc.iterName(r)
						srt := "(Array " + vc.e.sortOf(mt.Key()) + " Bool)"
						ce.iter = vc.arrIn(heap, n, srt)
					}
				}
			}
		}
		// the nearest enclosing loop over a slice: outer_range_x (what it ranges over), outer_range_i (index of
		// its last completed iteration; the current one is outer_range_i + 1)
		best := -1
		for h, set := range vc.loopBlks {
			if h == b.Index || !set[b.Index] {
				continue
			}
			if best < 0 || len(set) < len(vc.loopBlks[best]) {
				best = h
			}
		}
		if best >= 0 {
			for _, hb := range vc.fn.Blocks {
				if hb.Index != best {
					continue
				}
				for _, ins := range hb.Instrs {
					switch x := ins.(type) {
					case *ssa.Phi:
						if x.Comment == "rangeindex" {
							if t, ok := vc.val[x]; ok {
								ce.vars["outer_range_i"] = cval{t: t, typ: x.Type()}
							}
						}
					case *ssa.BinOp:
						if x.Op == token.LSS {
							if c, ok := x.Y.(*ssa.Call); ok {
								if bi, ok := c.Call.Value.(*ssa.Builtin); ok && bi.Name() == "len" {
									a := c.Call.Args[0]
									if t, ok := vc.val[a]; ok {
										ce.vars["outer_range_x"] = cval{t: t, typ: a.Type()}
									}
								}
							}
						}
					}
				}
			}
		}
	}
	return ce
}

func (vc *VC) safetyProps() []string {
	if vc.opts != nil {
		return vc.opts.SafetyProps
	}
	return []string{"C01"}
}

// ------------------------------------------------------------------------------------------
// blocks

func (vc *VC) block(b *ssa.BasicBlock) {
	vc.blk = b
	isHeader := vc.loopBlks[b.Index] != nil
	// reachability and incoming heap
	var inEdges []Term
	var inHeaps []*Heap
	var inPreds []*ssa.BasicBlock
	for _, p := range b.Preds {
		if vc.backEdge[[2]int{p.Index, b.Index}] {
			continue
		}
		e, ok := vc.edges[[2]int{p.Index, b.Index}]
		if !ok {
			continue // unreachable predecessor
		}
		inEdges = append(inEdges, e)
		inHeaps = append(inHeaps, vc.hout[p.Index])
		inPreds = append(inPreds, p)
	}
	if b.Index == 0 {
		vc.rb = "true"
	} else {
		r := sym(fmt.Sprintf("r!%d", b.Index))
		vc.declare(r, SBool)
		vc.fact(Eq(r, Or(inEdges...)))
		vc.rb = r
	}
	vc.reach[b.Index] = vc.rb
	if b.Index != 0 {
		vc.cur = vc.mergeHeaps(inEdges, inHeaps)
	}
	vc.hin[b.Index] = vc.cur.clone()

	if isHeader {
		vc.loopHeader(b, inEdges, inPreds)
	}

	for i, ins := range b.Instrs {
		vc.curIdx = i
		if as := vc.escBefore[ins]; len(as) > 0 {
			vc.escapeChecks(as, ins.Pos())
		}
		if i == len(b.Instrs)-1 {
			if as := vc.escAtEnd[b.Index]; len(as) > 0 {
				vc.escapeChecks(as, ins.Pos())
			}
		}
		vc.instr(ins)
	}
	vc.hout[b.Index] = vc.cur
}

func (vc *VC) mergeHeaps(edges []Term, heaps []*Heap) *Heap {
	if len(heaps) == 0 {
		return vc.entry.clone()
	}
	if len(heaps) == 1 {
		return heaps[0].clone()
	}
	out := &Heap{arr: map[string]Term{}}
	names := map[string]bool{}
	for _, h := range heaps {
		for n := range h.arr {
			names[n] = true
		}
	}
	var sorted []string
	for n := range names {
		sorted = append(sorted, n)
	}
	sort.Strings(sorted)
	for _, n := range sorted {
		first := vc.arrIn(heaps[0], n, vc.arrSort[n])
		same := true
		for _, h := range heaps[1:] {
			if vc.arrIn(h, n, vc.arrSort[n]) != first {
				same = false
			}
		}
		if same {
			out.arr[n] = first
			continue
		}
		c := vc.fresh(n, vc.arrSort[n])
		for i, h := range heaps {
			vc.fact(Imp(edges[i], Eq(c, h.arr[n])))
		}
		out.arr[n] = c
	}
	same := true
	for _, h := range heaps[1:] {
		if h.alloc != heaps[0].alloc {
			same = false
		}
	}
	if same {
		out.alloc = heaps[0].alloc
	} else {
		c := vc.fresh("alloc", SInt)
		for i, h := range heaps {
			vc.fact(Imp(edges[i], Eq(c, h.alloc)))
		}
		out.alloc = c
	}
	return out
}

// havoc applies a mod set to the current heap. allocPre is the allocation counter before.
func (vc *VC) havoc(m *ModSet) {
	allocPre := vc.cur.alloc
	var names []string
	if m.All {
		for n := range vc.arrays {
			if strings.HasPrefix(n, "IT:") {
				continue
			}
			names = append(names, n)
		}
	} else {
		for n := range m.Arr {
			names = append(names, n)
		}
	}
	// arrays written only through specific local objects: havoc just those objects
	if !m.All {
		var locals []string
		for n := range m.Local {
			if _, general := m.Arr[n]; !general {
				locals = append(locals, n)
			}
		}
		sort.Strings(locals)
		for _, n := range locals {
			srt, ok := vc.arrSort[n]
			if !ok || !strings.HasPrefix(srt, "(Array Int ") {
				continue
			}
			inner := strings.TrimSuffix(strings.TrimPrefix(srt, "(Array Int "), ")")
			t := vc.arrIn(vc.cur, n, srt)
			seen := map[ssa.Value]bool{}
			for _, al := range m.Local[n] {
				if seen[al] {
					continue
				}
				seen[al] = true
				ref, ok := vc.val[al]
				if !ok {
					continue // allocated inside the loop: not yet existing at the header
				}
				t = Sto(t, ref, vc.fresh("lh", inner))
			}
			vc.setArr(n, srt, t)
		}
	}
	sort.Strings(names)
	for _, n := range names {
		srt, ok := vc.arrSort[n]
		if !ok {
			// array never read or written in this function: irrelevant
			if vc.pass == 1 {
				continue
			}
			continue
		}
		old := vc.arrIn(vc.cur, n, srt)
		nw := vc.havocArr(n)
		lvl := modOld
		if !m.All {
			lvl = m.Arr[n]
		}
		if strings.HasPrefix(n, "F:") {
			// a field under the `immutable` discipline is only ever stored into objects allocated by the storing
			// function (an obligation at every store): whatever a callee does, objects that existed before the
			// call keep their value
			if _, imm := vc.e.cs.ImmutableField[n[2:]]; imm {
				lvl = modFresh
			}
		}
		if strings.HasPrefix(n, "GH:") && vc.e.ghostMonotone(n[3:]) && srt == "(Array Int Bool)" {
			vc.gfact(fmt.Sprintf("(forall ((r Int)) (! (=> (select %s r) (select %s r)) :pattern ((select %s r))))", old, nw, nw))
		}
		if lvl == modFresh && strings.HasPrefix(srt, "(Array Int ") {
			// frame: objects that existed before are unchanged
			vc.gfact(fmt.Sprintf("(forall ((r Int)) (! (=> (<= r %s) (= (select %s r) (select %s r))) :pattern ((select %s r))))", allocPre, nw, old, nw))
		}
	}
	na := vc.fresh("alloc", SInt)
	vc.fact(Ge(na, allocPre))
	vc.cur.alloc = na
}

func (vc *VC) loopHeader(b *ssa.BasicBlock, inEdges []Term, inPreds []*ssa.BasicBlock) {
	h := b.Index
	ls := vc.loopSpecs[h]
	props := vc.safetyProps()
	if vc.con != nil && len(vc.con.Props) > 0 {
		props = vc.con.Props
	}
	// automatic exit-shape obligations for the loops of functions that carry a property contract: a loop
	// that is left only by exhaustion today must not acquire a `break` or an inner `return` unnoticed
	// (continue -> break and early-return slips). Named by the loop's ordinal, not its text.
	if vc.con != nil && len(vc.con.Props) > 0 && !(ls != nil && (ls.NoBreak != nil || ls.Complete != nil)) {
		var done *ssa.BasicBlock
		for _, s := range b.Succs {
			if !vc.loopBlks[h][s.Index] {
				done = s
			}
		}
		brk, ret := Term("true"), Term("true")
		for _, lb := range vc.fn.Blocks {
			if !vc.loopBlks[h][lb.Index] || lb.Index == h {
				continue
			}
			for _, s := range lb.Succs {
				if vc.loopBlks[h][s.Index] {
					continue
				}
				if len(s.Instrs) > 0 {
					if _, isPanic := s.Instrs[len(s.Instrs)-1].(*ssa.Panic); isPanic && len(s.Succs) == 0 {
						continue
					}
				}
				if s == done {
					brk = "false"
				} else {
					ret = "false"
				}
			}
		}
		ord := 0
		for i, hh := range vc.loopHeadsInSourceOrder() {
			if hh == h {
				ord = i + 1
			}
		}
		// leaving a loop over a map early makes the outcome depend on the iteration order of that run (C02)
		pr := vc.con.Props
		if vc.inMapRange(h) {
			pr = append(append([]string{}, pr...), "C02")
		}
		vc.checkG("loop-nobreak", token.NoPos, fmt.Sprintf("loop #%d", ord), "true", brk, pr)
		vc.checkG("loop-noreturn", token.NoPos, fmt.Sprintf("loop #%d", ord), "true", ret, pr)
	}
	if ls != nil && ls.NoBreak != nil {
		// no `break`: an exit of the natural loop from a block other than the header must not lead to
		// the block the header exits to (a `return` in the body is allowed)
		var done *ssa.BasicBlock
		for _, s := range b.Succs {
			if !vc.loopBlks[h][s.Index] {
				done = s
			}
		}
		cond, pos := Term("true"), token.NoPos
		for _, lb := range vc.fn.Blocks {
			if !vc.loopBlks[h][lb.Index] || lb.Index == h {
				continue
			}
			for _, s := range lb.Succs {
				if !vc.loopBlks[h][s.Index] && s == done {
					cond = "false"
					pos = lastPos(lb)
				}
			}
		}
		pr := ls.NoBreak.Props
		if len(pr) == 0 {
			pr = props
		}
		vc.checkG("loop-complete", pos, "no break in loop "+ls.Key, "true", cond, pr)
	}
	if ls != nil && ls.Complete != nil {
		// exits of the natural loop must leave from the header (the range / condition is exhausted);
		// a panic is not an exit
		cond, pos := Term("true"), token.NoPos
		for _, lb := range vc.fn.Blocks {
			if !vc.loopBlks[h][lb.Index] || lb.Index == h {
				continue
			}
			for _, s := range lb.Succs {
				if !vc.loopBlks[h][s.Index] {
					if len(s.Instrs) > 0 {
						if _, isPanic := s.Instrs[len(s.Instrs)-1].(*ssa.Panic); isPanic && len(s.Succs) == 0 {
							continue
						}
					}
					cond = "false"
					for _, ins := range s.Instrs {
						if ins.Pos().IsValid() {
							pos = ins.Pos()
							break
						}
					}
				}
			}
		}
		pr := ls.Complete.Props
		if len(pr) == 0 {
			pr = props
		}
		vc.checkG("loop-complete", pos, "loop "+ls.Key, "true", cond, pr)
	}
	// 1. invariant on entry: evaluate with phis := entry incoming values
	preHeap := vc.cur
	if ls != nil {
		for i, p := range inPreds {
			sub := map[ssa.Value]Term{}
			for _, ins := range b.Instrs {
				phi, ok := ins.(*ssa.Phi)
				if !ok {
					break
				}
				for j, pp := range b.Preds {
					if pp == p {
						sub[phi] = vc.v(phi.Edges[j])
					}
				}
			}
			for _, inv := range ls.Invariants {
				ce := vc.envAt(b, vc.hout[p.Index], sub)
				t := ce.evalTop(inv.Expr, true)
				if ce.err != nil {
					vc.unsupp("invariant %q: %v", inv.Text, ce.err)
					continue
				}
				pr := props
				if len(inv.Props) > 0 {
					pr = inv.Props
				}
				vc.checkG("inv-entry", token.NoPos, "loop "+ls.Key+": "+inv.Text, inEdges[i], t.t, pr)
			}
		}
	}
	// 2. havoc
	m := vc.loopWrites(h)
	vc.havoc(m)
	_ = preHeap
	sub := map[ssa.Value]Term{}
	for _, ins := range b.Instrs {
		phi, ok := ins.(*ssa.Phi)
		if !ok {
			break
		}
		n := vc.fresh("phi:"+phi.Comment, vc.e.sortOf(phi.Type()))
		vc.val[phi] = n
		sub[phi] = n
		vc.gfact(vc.typeFacts(n, phi.Type()))
		// automatic monotonicity invariants for integer induction variables
		if bt, ok := phi.Type().Underlying().(*types.Basic); ok && bt.Info()&types.IsInteger != 0 {
			var entryVals []ssa.Value
			var backVals []ssa.Value
			for j, pp := range b.Preds {
				if vc.backEdge[[2]int{pp.Index, b.Index}] {
					backVals = append(backVals, phi.Edges[j])
				} else {
					entryVals = append(entryVals, phi.Edges[j])
				}
			}
			if len(entryVals) == 1 {
				dir := 0
				okAll := true
				for _, bv := range backVals {
					d := stepDir(bv, phi)
					if d == 0 || (dir != 0 && d != dir) {
						okAll = false
					}
					dir = d
				}
				if okAll && dir != 0 {
					e0 := vc.v(entryVals[0])
					if dir > 0 {
						vc.gfact(Ge(n, e0))
					} else {
						vc.gfact(Le(n, e0))
					}
				}
			}
		}
	}
	// 3. assume invariants
	hi := &hdrInfo{heap: vc.cur.clone(), phiSub: sub}
	vc.hdrState[h] = hi
	if ls != nil {
		for _, inv := range ls.Invariants {
			ce := vc.envAt(b, vc.cur, nil)
			t := ce.evalTop(inv.Expr, false)
			if ce.err != nil {
				continue
			}
			vc.gfact(t.t)
		}
		for _, d := range ls.Decreases {
			ce := vc.envAt(b, vc.cur, nil)
			t := ce.eval(d.Expr)
			if ce.err != nil {
				vc.unsupp("decreases %q: %v", d.Text, ce.err)
				continue
			}
			c := vc.fresh("variant", SInt)
			vc.fact(Eq(c, t.t))
			hi.decr = append(hi.decr, c)
		}
	}
}

// stepDir: +1 if v == phi + positive const, -1 if phi - positive const / + negative.
func stepDir(v ssa.Value, phi *ssa.Phi) int {
	b, ok := v.(*ssa.BinOp)
	if !ok {
		return 0
	}
	c, ok := b.Y.(*ssa.Const)
	if !ok || b.X != ssa.Value(phi) || c.Value == nil {
		return 0
	}
	n := c.Int64()
	switch b.Op {
	case token.ADD:
		if n > 0 {
			return 1
		}
		if n < 0 {
			return -1
		}
	case token.SUB:
		if n > 0 {
			return -1
		}
		if n < 0 {
			return 1
		}
	}
	return 0
}

// backEdgeChecks emits invariant preservation / variant checks for edge from current block to header hb.
func (vc *VC) backEdgeChecks(hb *ssa.BasicBlock, edge Term) {
	h := hb.Index
	// names are resolved in the scope of the loop whose back edge this is (the source block may
	// belong to a nested loop)
	switch l := vc.hdrSrc[h].(type) {
	case *ast.ForStmt:
		vc.evalPos = l.Body.Rbrace
	case *ast.RangeStmt:
		vc.evalPos = l.Body.Rbrace
	}
	defer func() { vc.evalPos = token.NoPos }()
	ls := vc.loopSpecs[h]
	props := vc.safetyProps()
	if vc.con != nil && len(vc.con.Props) > 0 {
		props = vc.con.Props
	}
	sub := map[ssa.Value]Term{}
	for _, ins := range hb.Instrs {
		phi, ok := ins.(*ssa.Phi)
		if !ok {
			break
		}
		for j, pp := range hb.Preds {
			if pp == vc.blk {
				sub[phi] = vc.v(phi.Edges[j])
			}
		}
	}
	if ls == nil {
		vc.autoTermination(hb, edge, sub)
		return
	}
	for _, bc := range ls.BodyCalls {
		var reaches []Term
		for _, blk := range vc.ownLoopBlocks(h) {
			for _, ins := range blk.Instrs {
				if vc.matchesBodyCall(ins, bc.Fn) {
					if r, ok := vc.reach[blk.Index]; ok {
						reaches = append(reaches, r)
					}
				}
			}
		}
		// loop-carried variables denote their value at the start of the iteration, variables defined
		// in the body their value in this iteration
		ce := vc.envAt(vc.blk, vc.cur, nil)
		hce := vc.envAt(hb, vc.cur, nil)
		for name, v := range hce.vars {
			ce.vars[name] = v
		}
		vc.iterationNames(hb, ce)
		t, wfs := ce.evalWithSides(bc.Cond)
		if ce.err != nil {
			// a `continue` inside a nested block: names of that block are in scope where the iteration ends
			if lp := lastPos(vc.blk); lp.IsValid() {
				saved := vc.evalPos
				vc.evalPos = lp
				ce = vc.envAt(vc.blk, vc.cur, nil)
				vc.evalPos = saved
				for name, v := range hce.vars {
					if _, has := ce.vars[name]; !has {
						ce.vars[name] = v
					}
				}
				vc.iterationNames(hb, ce)
				t, wfs = ce.evalWithSides(bc.Cond)
			}
		}
		if ce.err != nil {
			vc.unsupp("body_calls %q: %v (back edge from block %d %s)", bc.Text, ce.err, vc.blk.Index, vc.blk.Comment)
			continue
		}
		pr := props
		if len(bc.Props) > 0 {
			pr = bc.Props
		}
		kind := "body-calls"
		if strings.HasPrefix(bc.Fn, "store:") {
			kind = "body-stores"
		}
		vc.checkG(kind, token.NoPos, "loop "+ls.Key+": "+bc.Text, edge, Imp(wfs, Eq(Or(reaches...), t.t)), pr)
	}
	for _, inv := range ls.Invariants {
		ce := vc.envAt(hb, vc.cur, sub)
		t := ce.evalTop(inv.Expr, true)
		if ce.err != nil {
			continue
		}
		pr := props
		if len(inv.Props) > 0 {
			pr = inv.Props
		}
		vc.checkG("inv-preserved", token.NoPos, "loop "+ls.Key+": "+inv.Text, edge, t.t, pr)
	}
	for _, st := range ls.Stable {
		ce1 := vc.envAt(hb, vc.cur, sub)
		t1 := ce1.eval(st.Expr)
		ce0 := vc.envAt(hb, vc.cur, nil)
		t0 := ce0.eval(st.Expr)
		if ce1.err != nil || ce0.err != nil {
			continue
		}
		pr := props
		if len(st.Props) > 0 {
			pr = st.Props
		}
		vc.checkG("inv-preserved", token.NoPos, "loop "+ls.Key+": stable "+st.Text, edge, Eq(t1.t, t0.t), pr)
	}
	hi := vc.hdrState[h]
	for i, d := range ls.Decreases {
		if hi == nil || i >= len(hi.decr) {
			continue
		}
		ce := vc.envAt(hb, vc.cur, sub)
		t := ce.eval(d.Expr)
		if ce.err != nil {
			continue
		}
		vc.checkG("decreases", token.NoPos, "loop "+ls.Key+": "+d.Text, edge, And(Lt(t.t, hi.decr[i]), Ge(hi.decr[i], "0")), props)
	}
	if len(ls.Decreases) == 0 {
		vc.autoTermination(hb, edge, sub)
	}
}

// autoTermination: for loops without a decreases clause, try the canonical measures.
func (vc *VC) autoTermination(hb *ssa.BasicBlock, edge Term, sub map[ssa.Value]Term) {
	// range loops over slices/maps/strings terminate by construction (Go semantics); for loops with an
	// integer induction variable compared against a loop-invariant bound get an automatic measure.
	for _, ins := range hb.Instrs {
		switch x := ins.(type) {
		case *ssa.Next:
			_ = x
			return // map/string range: terminates
		}
	}
	if strings.HasPrefix(hb.Comment, "rangeindex") || strings.HasPrefix(hb.Comment, "rangeiter") {
		return
	}
	// look for "if phi < bound" / "phi + c < bound" terminating condition in the header
	iff, ok := hb.Instrs[len(hb.Instrs)-1].(*ssa.If)
	if !ok {
		vc.checkG("terminates", token.NoPos, vc.loopText(hb), edge, "false", vc.safetyProps())
		return
	}
	cmp, ok := iff.Cond.(*ssa.BinOp)
	if ok && (cmp.Op == token.LSS || cmp.Op == token.LEQ || cmp.Op == token.GTR || cmp.Op == token.GEQ || cmp.Op == token.NEQ) {
		// measure: |bound - x| must strictly decrease along the back edge, and both evaluated with header values vs back-edge values
		hi := vc.hdrState[hb.Index]
		if hi != nil {
			xh, yh := vc.termAtHeader(cmp.X, hi, nil), vc.termAtHeader(cmp.Y, hi, nil)
			xb, yb := vc.termAtHeader(cmp.X, hi, sub), vc.termAtHeader(cmp.Y, hi, sub)
			if xh != "" && yh != "" && xb != "" && yb != "" {
				var mh, mb Term
				switch cmp.Op {
				case token.LSS, token.LEQ, token.NEQ:
					mh, mb = Sub(yh, xh), Sub(yb, xb)
				default:
					mh, mb = Sub(xh, yh), Sub(xb, yb)
				}
				vc.checkG("terminates", token.NoPos, vc.loopText(hb), edge, Lt(mb, mh), vc.safetyProps())
				return
			}
		}
	}
	vc.checkG("terminates", token.NoPos, vc.loopText(hb), edge, "false", vc.safetyProps())
}

func (vc *VC) loopText(hb *ssa.BasicBlock) string {
	for _, ins := range hb.Instrs {
		if p := ins.Pos(); p.IsValid() {
			if t := vc.exprText(p); t != "" {
				return "loop " + t
			}
		}
	}
	return fmt.Sprintf("loop@%s", hb.Comment)
}

// termAtHeader re-evaluates a simple header expression (phi, len(x), const, x+c) under a phi substitution.
func (vc *VC) termAtHeader(v ssa.Value, hi *hdrInfo, sub map[ssa.Value]Term) Term {
	if sub != nil {
		if t, ok := sub[v]; ok {
			return t
		}
	}
	switch x := v.(type) {
	case *ssa.Phi, *ssa.Const, *ssa.Parameter:
		return vc.v(v)
	case *ssa.BinOp:
		if x.Op == token.ADD || x.Op == token.SUB {
			a, b := vc.termAtHeader(x.X, hi, sub), vc.termAtHeader(x.Y, hi, sub)
			if a == "" || b == "" {
				return ""
			}
			if x.Op == token.ADD {
				return Add(a, b)
			}
			return Sub(a, b)
		}
	case *ssa.Call:
		if bi, ok := x.Call.Value.(*ssa.Builtin); ok && bi.Name() == "len" {
			a := vc.termAtHeader(x.Call.Args[0], hi, sub)
			if a == "" {
				return ""
			}
			switch x.Call.Args[0].Type().Underlying().(type) {
			case *types.Slice:
				return sx("s_len", a)
			case *types.Basic:
				return sx("slen", a)
			}
		}
	}
	// a value defined outside the loop is unchanged
	if ins, ok := v.(ssa.Instruction); ok {
		if !vc.loopBlks[vc.hdrIndexOf(hi)][ins.Block().Index] {
			return vc.v(v)
		}
		if sub == nil {
			return vc.v(v)
		}
		return ""
	}
	return vc.v(v)
}

func (vc *VC) hdrIndexOf(hi *hdrInfo) int {
	for k, v := range vc.hdrState {
		if v == hi {
			return k
		}
	}
	return -1
}

// ownLoopBlocks: blocks of loop h that are not inside a nested loop.
func (vc *VC) ownLoopBlocks(h int) []*ssa.BasicBlock {
	var out []*ssa.BasicBlock
	for _, b := range vc.fn.Blocks {
		if !vc.loopBlks[h][b.Index] {
			continue
		}
		nested := false
		for h2, set := range vc.loopBlks {
			if h2 == h || !vc.loopBlks[h][h2] {
				continue
			}
			if set[b.Index] && len(set) < len(vc.loopBlks[h]) {
				nested = true
			}
		}
		if !nested {
			out = append(out, b)
		}
	}
	return out
}

// innermostLoop returns the header index of the innermost loop containing block b (or -1).
func (vc *VC) innermostLoop(b int) int {
	best, size := -1, 1<<30
	for h, set := range vc.loopBlks {
		if set[b] && len(set) < size {
			best, size = h, len(set)
		}
	}
	return best
}

// debugRefValue: go/ssa records `x := T{...}` (map and slice literals) with a debug ref to the zero
// value placed before the literal is built; the variable's value is the literal that follows.
func debugRefValue(b *ssa.BasicBlock, i int, d *ssa.DebugRef) ssa.Value {
	c, ok := d.X.(*ssa.Const)
	if !ok || c.Value != nil {
		return d.X
	}
	for j := i + 1; j < len(b.Instrs); j++ {
		switch x := b.Instrs[j].(type) {
		case *ssa.DebugRef:
			return d.X
		case *ssa.MakeMap:
			if types.Identical(x.Type(), c.Type()) {
				return x
			}
		case *ssa.MakeSlice:
			if types.Identical(x.Type(), c.Type()) {
				return x
			}
		case *ssa.Slice:
			if types.Identical(x.Type(), c.Type()) {
				return x
			}
		}
	}
	return d.X
}

// typeSwitchNames binds the variables of the type switches enclosing pos.
func (vc *VC) typeSwitchNames(ce *cenv, pos token.Pos) {
	f := vc.e.fileOf(pos)
	if f == nil {
		return
	}
	path, _ := astutil.PathEnclosingInterval(f, pos, pos)
	for i := len(path) - 1; i >= 0; i-- {
		ts, ok := path[i].(*ast.TypeSwitchStmt)
		if !ok {
			continue
		}
		as, ok := ts.Assign.(*ast.AssignStmt)
		if !ok || len(as.Lhs) != 1 {
			continue
		}
		id, ok := as.Lhs[0].(*ast.Ident)
		if !ok {
			continue
		}
		// the clause containing pos
		var clause *ast.CaseClause
		for _, st := range ts.Body.List {
			cc := st.(*ast.CaseClause)
			if cc.Pos() <= pos && pos <= cc.End() {
				clause = cc
			}
		}
		if clause == nil {
			continue
		}
		// type assertions emitted for this switch: their position is the `case` keyword of a clause
		casePos := map[token.Pos]*ast.CaseClause{}
		for _, st := range ts.Body.List {
			cc := st.(*ast.CaseClause)
			casePos[cc.Case] = cc
		}
		var scrut ssa.Value
		var narrowed *ssa.TypeAssert
		for _, b := range vc.fn.Blocks {
			for _, ins := range b.Instrs {
				ta, ok := ins.(*ssa.TypeAssert)
				if !ok {
					continue
				}
				if cc, ok := casePos[ta.Pos()]; ok {
					scrut = ta.X
					if cc == clause && len(clause.List) == 1 {
						narrowed = ta
					}
				}
			}
		}
		if scrut == nil {
			continue
		}
		if narrowed != nil {
			if tp, ok := vc.tuple[narrowed]; ok && len(tp) > 0 {
				ce.vars[id.Name] = cval{t: tp[0], typ: narrowed.AssertedType}
				continue
			}
			if t, ok := vc.val[narrowed]; ok && !narrowed.CommaOk {
				ce.vars[id.Name] = cval{t: t, typ: narrowed.AssertedType}
				continue
			}
		}
		if t, ok := vc.val[scrut]; ok {
			ce.vars[id.Name] = cval{t: t, typ: scrut.Type()}
		}
	}
}

// iterationNames binds range_k / range_v (key and value of the current iteration of a map range)
// and range_e (element of the current iteration of a slice range), independent of the names the
// source gives them.
func (vc *VC) iterationNames(hb *ssa.BasicBlock, ce *cenv) {
	for _, ins := range hb.Instrs {
		switch x := ins.(type) {
		case *ssa.Next:
			r, ok := x.Iter.(*ssa.Range)
			if !ok {
				continue
			}
			if mt, ok := r.X.Type().Underlying().(*types.Map); ok {
				if tp, ok := vc.tuple[x]; ok && len(tp) == 3 {
					ce.vars["range_k"] = cval{t: tp[1], typ: mt.Key()}
					ce.vars["range_v"] = cval{t: tp[2], typ: mt.Elem()}
				}
			}
		case *ssa.Phi:
			if x.Comment != "rangeindex" {
				continue
			}
			if rx, ok := ce.vars["range_x"]; ok && rx.typ != nil {
				if st, ok := rx.typ.Underlying().(*types.Slice); ok {
					n, srt := vc.e.elemArr(st.Elem())
					ce.vars["range_e"] = cval{t: vc.eltTerm(st.Elem(), vc.arrIn(ce.heap, n, srt), rx.t, Add(vc.v(x), "1")), typ: st.Elem()}
				}
			}
		}
	}
}

// matchesBodyCall: ins is a call of the function (or builtin) named fn, or, for fn = "store:T.f",
// a store to field f of a struct of type T.
func (vc *VC) matchesBodyCall(ins ssa.Instruction, fn string) bool {
	if strings.HasPrefix(fn, "store:") {
		st, ok := ins.(*ssa.Store)
		if !ok {
			return false
		}
		fa, ok := st.Addr.(*ssa.FieldAddr)
		if !ok {
			return false
		}
		pt, ok := fa.X.Type().Underlying().(*types.Pointer)
		if !ok {
			return false
		}
		stt, ok := pt.Elem().Underlying().(*types.Struct)
		if !ok {
			return false
		}
		return vc.e.typeName(pt.Elem())+"."+stt.Field(fa.Field).Name() == fn[len("store:"):]
	}
	c, ok := ins.(*ssa.Call)
	if !ok {
		return false
	}
	if strings.HasPrefix(fn, "iface:") {
		// "iface:T.m": a dynamic call of method m on a value of interface type T
		if !c.Call.IsInvoke() {
			return false
		}
		return "iface:"+vc.e.typeName(c.Call.Value.Type())+"."+c.Call.Method.Name() == fn
	}
	if bi, ok := c.Call.Value.(*ssa.Builtin); ok && bi.Name() == fn {
		return true
	}
	if g := c.Call.StaticCallee(); g != nil && (vc.e.fname(g) == fn || libName(g) == fn) {
		return true
	}
	return false
}

// lastPos: position of the last positioned instruction of a block.
func lastPos(b *ssa.BasicBlock) token.Pos {
	for i := len(b.Instrs) - 1; i >= 0; i-- {
		if p := b.Instrs[i].Pos(); p.IsValid() {
			return p
		}
	}
	return token.NoPos
}

// loopHeadsInSourceOrder: loop headers ordered by the position of their source loop (unknown last).
func (vc *VC) loopHeadsInSourceOrder() []int {
	hs := append([]int{}, vc.loopHeads...)
	pos := func(h int) token.Pos {
		if l := vc.hdrSrc[h]; l != nil {
			return l.Pos()
		}
		return token.Pos(1 << 30)
	}
	sort.Slice(hs, func(i, j int) bool {
		if pos(hs[i]) != pos(hs[j]) {
			return pos(hs[i]) < pos(hs[j])
		}
		return hs[i] < hs[j]
	})
	return hs
}

// inMapRange: loop h, or a loop around it, ranges over a map.
func (vc *VC) inMapRange(h int) bool {
	for h2, set := range vc.loopBlks {
		if h2 != h && !set[h] {
			continue
		}
		for _, b := range vc.fn.Blocks {
			if b.Index != h2 {
				continue
			}
			for _, ins := range b.Instrs {
				if nx, ok := ins.(*ssa.Next); ok {
					if r, ok := nx.Iter.(*ssa.Range); ok {
						if _, isMap := r.X.Type().Underlying().(*types.Map); isMap {
							return true
						}
					}
				}
			}
		}
	}
	return false
}
