package main

// Counterexample replay: for a failing safety obligation (one whose violation is a run-time panic) the
// solver's candidate model of the entry state is turned into Go values (receiver, arguments and the
// objects reachable from them), the real function of /repo is called on them in an in-package test
// injected with `go test -overlay`, and the violation counts as replayed only if the real code panics
// at the source position of the obligation. The candidate model may come from an `unknown` answer
// (quantified axioms are not decided by the solver), so it is only ever trusted through that replay.

import (
	"bufio"
	"encoding/json"
	"fmt"
	"go/types"
	"io"
	"os"
	"os/exec"
	"path/filepath"
	"regexp"
	"sort"
	"strconv"
	"strings"
	"time"

)

type Cex struct {
	TestSrc   string
	Output    string
	Confirmed bool
	Note      string
}

func panicKind(kind string) bool {
	switch kind {
	case "nil-deref", "index-bounds", "slice-bounds", "type-assert", "div-zero", "nil-map-write", "neg-len", "nil-call":
		return true
	}
	return false
}

// solver session ---------------------------------------------------------------------------

type smtSession struct {
	cmd *exec.Cmd
	in  io.WriteCloser
	out *bufio.Reader
}

func (s *smtSession) close() {
	s.in.Close()
	done := make(chan struct{})
	go func() { s.cmd.Wait(); close(done) }()
	select {
	case <-done:
	case <-time.After(2 * time.Second):
		s.cmd.Process.Kill()
	}
}

// readSexp reads one line, or one balanced s-expression if the line opens a parenthesis.
func (s *smtSession) readSexp() (string, error) {
	var b strings.Builder
	depth := 0
	started := false
	for {
		line, err := s.out.ReadString('\n')
		if err != nil && line == "" {
			return b.String(), err
		}
		inStr := false
		for _, c := range line {
			switch {
			case c == '"':
				inStr = !inStr
			case inStr:
			case c == '(':
				depth++
			case c == ')':
				depth--
			}
		}
		if strings.TrimSpace(line) != "" {
			started = true
		}
		b.WriteString(line)
		if started && depth <= 0 {
			return strings.TrimSpace(b.String()), nil
		}
	}
}

func (s *smtSession) eval(t Term) (string, error) {
	if _, err := fmt.Fprintf(s.in, "(eval %s :completion true)\n", t); err != nil {
		return "", err
	}
	r, err := s.readSexp()
	if os.Getenv("GOVC_DEBUG_CEX") != "" {
		fmt.Fprintf(os.Stderr, "eval %s => %s (%v)\n", t, r, err)
	}
	if err != nil {
		return "", err
	}
	if strings.HasPrefix(r, "(error") {
		return "", fmt.Errorf("%s", r)
	}
	return r, nil
}

func (s *smtSession) evalInt(t Term) (int64, bool) {
	r, err := s.eval(t)
	if err != nil {
		return 0, false
	}
	r = strings.TrimSpace(r)
	neg := false
	if strings.HasPrefix(r, "(-") {
		neg = true
		r = strings.TrimSpace(strings.TrimSuffix(strings.TrimPrefix(r, "(-"), ")"))
	}
	n, err := strconv.ParseInt(r, 10, 64)
	if err != nil {
		return 0, false
	}
	if neg {
		n = -n
	}
	return n, true
}

func (s *smtSession) evalBool(t Term) (bool, bool) {
	r, err := s.eval(t)
	if err != nil {
		return false, false
	}
	switch strings.TrimSpace(r) {
	case "true":
		return true, true
	case "false":
		return false, true
	}
	return false, false
}

// reification ------------------------------------------------------------------------------

type reifier struct {
	vc      *VC
	s       *smtSession
	stmts   []string
	memo    map[string]string
	imports map[string]string // path -> name
	nvar    int
	budget  int
	lits    []string // string literals of the VC (sorted), to recognise equal strings
}

func (r *reifier) qual(p *types.Package) string {
	if p == r.vc.e.tpkg {
		return ""
	}
	r.imports[p.Path()] = p.Name()
	return p.Name()
}

func (r *reifier) typeStr(t types.Type) string { return types.TypeString(t, r.qual) }

func (r *reifier) newVar() string {
	r.nvar++
	return fmt.Sprintf("v%d", r.nvar)
}

func (r *reifier) accessible(t types.Type) bool {
	ok := true
	var walk func(t types.Type, d int)
	walk = func(t types.Type, d int) {
		if d > 6 || !ok {
			return
		}
		switch u := t.(type) {
		case *types.Named:
			if o := u.Obj(); o.Pkg() != nil && o.Pkg() != r.vc.e.tpkg && !o.Exported() {
				ok = false
			}
			if ta := u.TypeArgs(); ta != nil {
				for i := 0; i < ta.Len(); i++ {
					walk(ta.At(i), d+1)
				}
			}
		case *types.Pointer:
			walk(u.Elem(), d+1)
		case *types.Slice:
			walk(u.Elem(), d+1)
		case *types.Array:
			walk(u.Elem(), d+1)
		case *types.Map:
			walk(u.Key(), d+1)
			walk(u.Elem(), d+1)
		case *types.TypeParam:
			ok = false
		}
	}
	walk(t, 0)
	return ok
}

func (r *reifier) zero(t types.Type) string {
	switch u := t.Underlying().(type) {
	case *types.Basic:
		info := u.Info()
		switch {
		case info&types.IsBoolean != 0:
			return r.conv(t, "false")
		case info&types.IsString != 0:
			return r.conv(t, `""`)
		case u.Kind() == types.UnsafePointer || u.Kind() == types.UntypedNil:
			return "nil"
		default:
			return r.conv(t, "0")
		}
	case *types.Struct, *types.Array:
		return r.typeStr(t) + "{}"
	}
	return "nil"
}

func (r *reifier) conv(t types.Type, lit string) string {
	if _, ok := t.(*types.Basic); ok {
		if b := t.(*types.Basic); b.Info()&types.IsUntyped != 0 || b.Kind() == types.Int || b.Kind() == types.String || b.Kind() == types.Bool {
			return lit
		}
	}
	return r.typeStr(t) + "(" + lit + ")"
}

func (r *reifier) str(t Term) string {
	// equal to a literal of the function?
	for _, l := range r.lits {
		lt := r.vc.strLits[l]
		if eq, ok := r.s.evalBool(Eq(t, lt)); ok && eq {
			return l
		}
	}
	n, ok := r.s.evalInt(sx("slen", t))
	if !ok || n <= 0 {
		return ""
	}
	if n > 48 {
		n = 48
	}
	// the function converts this string to runes: give it the rune count of the model (the solver knows
	// nothing about UTF-8, so the bytes of the model cannot be used)
	for _, rc := range r.vc.runeConvs {
		if rc[0] != t {
			continue
		}
		if k, ok := r.s.evalInt(sx("s_len", rc[1])); ok && k > 0 && k < n && n <= 4*k {
			var sb strings.Builder
			left, runes := n, k
			for runes > 0 {
				// bytes for this rune: as many as needed so that the rest still fits
				w := left - (runes - 1)
				if w > 4 {
					w = 4
				}
				if w < 1 {
					w = 1
				}
				sb.WriteString([]string{"a", "\u00e9", "\u3042", "\U0001F600"}[w-1])
				left -= w
				runes--
			}
			return sb.String()
		}
	}
	b := make([]byte, n)
	for i := range b {
		c, ok := r.s.evalInt(sx("sat", t, IntLit(int64(i))))
		if !ok || c < 0 || c > 255 {
			c = 'a'
		}
		b[i] = byte(c)
	}
	return string(b)
}

func clipInt(u *types.Basic, n int64) string {
	switch u.Kind() {
	case types.Uint8:
		return strconv.FormatInt(n&0xff, 10)
	case types.Int8:
		return strconv.FormatInt(int64(int8(n)), 10)
	case types.Uint16:
		return strconv.FormatInt(n&0xffff, 10)
	case types.Int16:
		return strconv.FormatInt(int64(int16(n)), 10)
	case types.Uint32:
		return strconv.FormatInt(n&0xffffffff, 10)
	case types.Int32:
		return strconv.FormatInt(int64(int32(n)), 10)
	case types.Uint, types.Uint64, types.Uintptr:
		if n < 0 {
			n = -n
		}
	}
	return strconv.FormatInt(n, 10)
}

// value builds a Go expression for the SMT term t of Go type typ in the entry heap.
func (r *reifier) value(t Term, typ types.Type, depth int) string {
	r.budget--
	if r.budget < 0 || !r.accessible(typ) {
		return r.zero(typ)
	}
	vc := r.vc
	switch u := typ.Underlying().(type) {
	case *types.Basic:
		info := u.Info()
		switch {
		case info&types.IsBoolean != 0:
			b, _ := r.s.evalBool(t)
			return r.conv(typ, strconv.FormatBool(b))
		case info&types.IsString != 0:
			return r.conv(typ, strconv.Quote(r.str(t)))
		case info&types.IsInteger != 0:
			n, _ := r.s.evalInt(t)
			return r.conv(typ, clipInt(u, n))
		}
		return r.zero(typ)
	case *types.Pointer:
		ref, ok := r.s.evalInt(t)
		if !ok || ref == 0 || depth > 6 {
			return "nil"
		}
		key := fmt.Sprintf("%s@%d", vc.e.typeName(typ), ref)
		if v, ok := r.memo[key]; ok {
			return v
		}
		name := r.newVar()
		r.memo[key] = name
		el := u.Elem()
		if _, isStruct := el.Underlying().(*types.Struct); isStruct {
			r.stmts = append(r.stmts, fmt.Sprintf("%s := &%s{}", name, r.typeStr(el)))
			r.fillStructAt(name, IntLit(ref), el, depth+1)
			return name
		}
		// pointer to a cell
		cn, cs := vc.e.cellArr(el)
		r.stmts = append(r.stmts, fmt.Sprintf("%s := new(%s)", name, r.typeStr(el)))
		_ = cs
		if a0 := sym(cn + "!0"); vc.declared[a0] {
			ev := r.value(Sel(a0, IntLit(ref)), el, depth+1)
			r.stmts = append(r.stmts, fmt.Sprintf("*%s = %s", name, ev))
		}
		return name
	case *types.Struct:
		name := r.newVar()
		r.stmts = append(r.stmts, fmt.Sprintf("var %s %s", name, r.typeStr(typ)))
		r.fillStruct(name, t, typ, depth+1)
		return name
	case *types.Slice:
		arr, ok := r.s.evalInt(sx("s_arr", t))
		if !ok || arr == 0 {
			return "nil"
		}
		n, _ := r.s.evalInt(sx("s_len", t))
		off, _ := r.s.evalInt(sx("s_off", t))
		if n > 6 {
			n = 6
		}
		if depth > 6 {
			n = 0
		}
		en, es := vc.e.elemArr(u.Elem())
		_ = es
		E := sym(en + "!0")
		var elems []string
		for j := int64(0); j < n; j++ {
			if !vc.declared[E] {
				elems = append(elems, r.zero(u.Elem()))
				continue
			}
			elems = append(elems, r.value(Sel(Sel(E, IntLit(arr)), IntLit(off+j)), u.Elem(), depth+1))
		}
		return r.typeStr(typ) + "{" + strings.Join(elems, ", ") + "}"
	case *types.Map:
		ref, ok := r.s.evalInt(t)
		if !ok || ref == 0 {
			return "nil"
		}
		key := fmt.Sprintf("%s@%d", vc.e.typeName(typ), ref)
		if v, ok := r.memo[key]; ok {
			return v
		}
		name := r.newVar()
		r.memo[key] = name
		r.stmts = append(r.stmts, fmt.Sprintf("%s := %s{}", name, r.typeStr(typ)))
		if kb, ok := u.Key().Underlying().(*types.Basic); ok && kb.Info()&types.IsString != 0 && depth <= 6 {
			dn, vn, ds, vs := vc.e.mapArrs(u)
			_, _ = ds, vs
			if !vc.declared[sym(dn+"!0")] || !vc.declared[sym(vn+"!0")] {
				return name
			}
			D := Sel(sym(dn+"!0"), IntLit(ref))
			V := Sel(sym(vn+"!0"), IntLit(ref))
			for _, l := range r.lits {
				lt := vc.strLits[l]
				if in, ok := r.s.evalBool(Sel(D, lt)); ok && in {
					ev := r.value(Sel(V, lt), u.Elem(), depth+1)
					r.stmts = append(r.stmts, fmt.Sprintf("%s[%s] = %s", name, r.conv(u.Key(), strconv.Quote(l)), ev))
				}
			}
		}
		return name
	case *types.Interface:
		tag, ok := r.s.evalInt(sx("i_tag", t))
		if !ok || tag <= 0 || int(tag) > len(vc.e.tagList) {
			return "nil"
		}
		dt := vc.e.tagList[tag-1]
		if !types.AssignableTo(dt, typ) || !r.accessible(dt) {
			return "nil"
		}
		if _, isPtr := dt.Underlying().(*types.Pointer); isPtr {
			pv := r.value(sx("i_val", t), dt, depth+1)
			if pv == "nil" {
				return "(" + r.typeStr(dt) + ")(nil)"
			}
			return pv
		}
		switch du := dt.Underlying().(type) {
		case *types.Basic:
			info := du.Info()
			switch {
			case info&types.IsString != 0:
				return r.value(sx("unbox_str", sx("i_val", t)), dt, depth+1)
			case info&types.IsBoolean != 0:
				return r.value(sx("unbox_bool", sx("i_val", t)), dt, depth+1)
			case info&types.IsInteger != 0:
				return r.value(sx("i_val", t), dt, depth+1)
			}
		}
		return "nil"
	}
	return r.zero(typ)
}

// fillStructAt fills the fields of the object at heap reference ref from the entry versions of the field
// arrays; a field whose array the verification condition never mentions is unconstrained and left zero.
func (r *reifier) fillStructAt(name string, ref Term, typ types.Type, depth int) {
	vc := r.vc
	st, ok := typ.Underlying().(*types.Struct)
	if !ok {
		return
	}
	for i := 0; i < st.NumFields(); i++ {
		f := st.Field(i)
		if f.Name() == "_" || (!f.Exported() && f.Pkg() != vc.e.tpkg) {
			continue
		}
		ft := f.Type()
		if !r.accessible(ft) {
			continue
		}
		if _, isStruct := ft.Underlying().(*types.Struct); isStruct {
			// embedded / nested struct value: its fields live at an embedded pointer
			key := vc.e.typeName(typ) + "." + f.Name()
			if vc.declared[sym("emb:"+key)] {
				r.fillStructAt(name+"."+f.Name(), sx(sym("emb:"+key), ref), ft, depth)
			}
			continue
		}
		switch ft.Underlying().(type) {
		case *types.Signature, *types.Chan:
			continue
		}
		n, _, _ := vc.e.fieldArr(typ, i)
		a0 := sym(n + "!0")
		if !vc.declared[a0] {
			continue
		}
		ev := r.value(Sel(a0, ref), ft, depth)
		if ev == "nil" || ev == r.zero(ft) {
			continue
		}
		r.stmts = append(r.stmts, fmt.Sprintf("%s.%s = %s", name, f.Name(), ev))
	}
}

func (r *reifier) fillStruct(name string, sv Term, typ types.Type, depth int) {
	if !r.vc.declaredSort(r.vc.e.structSort(typ)) {
		return
	}
	vc := r.vc
	si := vc.e.structs[vc.e.structSort(typ)]
	for i, f := range si.fields {
		if f.Name() == "_" || (!f.Exported() && f.Pkg() != vc.e.tpkg) {
			continue
		}
		ft := f.Type()
		if !r.accessible(ft) {
			continue
		}
		acc := sx(si.accs[i], sv)
		if _, isStruct := ft.Underlying().(*types.Struct); isStruct {
			r.fillStruct(name+"."+f.Name(), acc, ft, depth)
			continue
		}
		switch ft.Underlying().(type) {
		case *types.Signature, *types.Chan:
			continue
		}
		ev := r.value(acc, ft, depth)
		if ev == "nil" || ev == r.zero(ft) {
			continue
		}
		r.stmts = append(r.stmts, fmt.Sprintf("%s.%s = %s", name, f.Name(), ev))
	}
}

// ------------------------------------------------------------------------------------------

var cexLineRe = regexp.MustCompile(`^([^:]+):(\d+)`)

// tryCounterexample returns nil when the function cannot be called from a test (closure, generic).
func (vc *VC) tryCounterexample(ob *Obligation, attempt int) *Cex {
	fn := vc.fn
	if fn.Parent() != nil || fn.Signature.TypeParams() != nil || fn.Signature.RecvTypeParams() != nil || len(fn.TypeArgs()) > 0 || fn.Signature.Variadic() {
		return nil
	}
	script := vc.scriptSel(ob.Index, nil, 8000, solverZ3New.Name)
	cut := strings.LastIndex(script, "(check-sat)")
	if cut < 0 {
		return nil
	}
	head := script[:cut]
	// diversification of later attempts: small strings and slices
	{
		// string parameters are reified up to 48 bytes: keep the model inside that bound (the inputs must
		// still satisfy the function's preconditions), shorter for later attempts
		bound := 40
		if attempt > 0 {
			bound = 3 + 3*attempt
		}
		for _, p := range fn.Params {
			t := vc.val[p]
			if t == "" {
				continue
			}
			switch p.Type().Underlying().(type) {
			case *types.Basic:
				if p.Type().Underlying().(*types.Basic).Info()&types.IsString != 0 {
					head += fmt.Sprintf("(assert (<= (slen %s) %d))\n", t, bound)
				}
			}
		}
	}
	cmd := exec.Command(solverZ3New.Cmd[0], "-in", "-smt2")
	in, _ := cmd.StdinPipe()
	outp, _ := cmd.StdoutPipe()
	cmd.Stderr = nil
	if err := cmd.Start(); err != nil {
		return &Cex{Note: "solver did not start: " + err.Error()}
	}
	s := &smtSession{cmd: cmd, in: in, out: bufio.NewReaderSize(outp, 1<<20)}
	defer s.close()
	// without model-based quantifier instantiation the solver answers at once (sat, or unknown with the
	// candidate model that satisfies the ground facts and the instantiated axioms)
	io.WriteString(in, "(set-option :smt.mbqi false)\n"+head+"(check-sat)\n")
	var res string
	deadline := time.Now().Add(20 * time.Second)
	for time.Now().Before(deadline) {
		l, err := s.readSexp()
		if err != nil {
			return &Cex{Note: "solver ended without an answer"}
		}
		if l == "sat" || l == "unknown" || l == "unsat" {
			res = l
			break
		}
	}
	if res == "unsat" || res == "" {
		return &Cex{Note: "no candidate model (" + res + ")"}
	}
	if _, err := s.eval("0"); err != nil {
		return &Cex{Note: "solver answered " + res + " without a candidate model"}
	}
	r := &reifier{vc: vc, s: s, memo: map[string]string{}, imports: map[string]string{}, budget: 400}
	for l := range vc.strLits {
		r.lits = append(r.lits, l)
	}
	sort.Strings(r.lits)
	var args []string
	for _, p := range fn.Params {
		t, ok := vc.val[p]
		if !ok {
			return &Cex{Note: "parameter " + p.Name() + " has no term"}
		}
		args = append(args, r.value(t, p.Type(), 0))
	}
	var call string
	if fn.Signature.Recv() != nil {
		call = fmt.Sprintf("(%s).%s(%s)", args[0], fn.Name(), strings.Join(args[1:], ", "))
		if args[0] == "nil" {
			call = fmt.Sprintf("(%s)(nil).%s(%s)", r.typeStr(fn.Params[0].Type()), fn.Name(), strings.Join(args[1:], ", "))
		}
	} else {
		call = fmt.Sprintf("%s(%s)", fn.Name(), strings.Join(args, ", "))
	}
	var src strings.Builder
	src.WriteString("package actionlint\n\nimport (\n\t\"fmt\"\n\t\"runtime\"\n\t\"testing\"\n")
	var paths []string
	for p := range r.imports {
		if p != "fmt" && p != "runtime" && p != "testing" {
			paths = append(paths, p)
		}
	}
	sort.Strings(paths)
	for _, p := range paths {
		fmt.Fprintf(&src, "\t%s %q\n", r.imports[p], p)
	}
	src.WriteString(")\n\n")
	fmt.Fprintf(&src, "// counterexample candidate for obligation %s\n// (%s), generated from the solver's model of the entry state\n", ob.Name, ob.Pos)
	src.WriteString("func TestGovcCex(t *testing.T) {\n")
	src.WriteString("\tdefer func() {\n\t\tif r := recover(); r != nil {\n\t\t\tbuf := make([]byte, 1<<16)\n\t\t\tn := runtime.Stack(buf, false)\n\t\t\tfmt.Printf(\"GOVC-CEX-PANIC %v\\n%s\\n\", r, buf[:n])\n\t\t\treturn\n\t\t}\n\t\tfmt.Println(\"GOVC-CEX-NOPANIC\")\n\t}()\n")
	for _, st := range r.stmts {
		src.WriteString("\t" + st + "\n")
	}
	// silence "declared and not used"
	for i := 1; i <= r.nvar; i++ {
		fmt.Fprintf(&src, "\t_ = v%d\n", i)
	}
	src.WriteString("\t" + call + "\n}\n")
	cex := &Cex{TestSrc: src.String()}
	out, err := runOverlayTest(vc.e.repoDir, "zz_govc_cex_test.go", cex.TestSrc, "^TestGovcCex$", 90*time.Second)
	cex.Output = out
	if err != nil && !strings.Contains(out, "GOVC-CEX-") {
		cex.Note = "the generated test did not run: " + firstLines(out, 6)
		return cex
	}
	if strings.Contains(out, "GOVC-CEX-PANIC") {
		m := cexLineRe.FindStringSubmatch(ob.Pos)
		if m != nil && strings.Contains(out, "/"+m[1]+":"+m[2]) {
			cex.Confirmed = true
			cex.Note = "the real code panics at " + m[1] + ":" + m[2] + " on the generated input"
		} else {
			cex.Note = "the real code panics on the generated input, but not at the position of the obligation"
		}
	} else {
		cex.Note = "the real code does not panic on the generated input (the candidate model does not transfer)"
	}
	return cex
}

func firstLines(s string, n int) string {
	ls := strings.Split(s, "\n")
	if len(ls) > n {
		ls = ls[:n]
	}
	return strings.Join(ls, " | ")
}

// runOverlayTest runs an in-package test file injected with -overlay; nothing is written into repo.
func runOverlayTest(repo, name, src, run string, timeout time.Duration) (string, error) {
	dir := workDir()
	tf, err := os.CreateTemp(dir, "cex*_test.go")
	if err != nil {
		return "", err
	}
	defer os.Remove(tf.Name())
	tf.WriteString(src)
	tf.Close()
	ov := map[string]map[string]string{"Replace": {filepath.Join(repo, name): tf.Name()}}
	of, err := os.CreateTemp(dir, "ov*.json")
	if err != nil {
		return "", err
	}
	defer os.Remove(of.Name())
	json.NewEncoder(of).Encode(ov)
	of.Close()
	cmd := exec.Command("go", "test", "-overlay", of.Name(), "-vet=off", "-count=1", "-v", "-timeout", "60s", "-run", run, ".")
	cmd.Dir = repo
	cmd.Env = append(os.Environ(), "GOFLAGS=-mod=mod", "GOPROXY=off", "GOSUMDB=off", "GOTOOLCHAIN=local")
	done := make(chan struct{})
	var out []byte
	go func() { out, err = cmd.CombinedOutput(); close(done) }()
	select {
	case <-done:
	case <-time.After(timeout):
		if cmd.Process != nil {
			cmd.Process.Kill()
		}
		<-done
	}
	return string(out), err
}

// declaredSort: the datatype of a struct sort is part of this VC's script (its constructor or sort name occurs).
func (vc *VC) declaredSort(sort string) bool {
	si := vc.e.structs[sort]
	if si == nil {
		return false
	}
	for _, d := range vc.decls {
		if strings.Contains(d, sort) || strings.Contains(d, si.ctor) {
			return true
		}
	}
	for _, it := range vc.items {
		if strings.Contains(it.fact, si.ctor) || strings.Contains(it.fact, sort) {
			return true
		}
	}
	return false
}
