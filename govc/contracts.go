package main

// Parsing of the contract files /repo/verif_contracts_*.go (comment-only, //go:build verif).

import (
	"fmt"
	"os"
	"path/filepath"
	"sort"
	"strconv"
	"strings"
)

type Clause struct {
	Kind  string // requires ensures invariant decreases
	Expr  *CExpr
	Text  string
	Props []string
	File  string
	Line  int
	Auto  bool // produced by the inference pass (file verif_contracts_auto.go)
	// InTrustedBlock: the clause stands in a block that says `trusted`: assumed at call sites, not verified.
	// Clauses of other blocks of the same function are verified against the body as usual.
	InTrustedBlock bool
}

type BodyCall struct {
	Fn   string
	Cond *CExpr // body_calls: the call is reached in an iteration iff Cond
	Req  *CExpr // at_call: must hold at each such call site (callee parameter names are bound)
	Text string
	Props []string
}

type LoopSpec struct {
	BodyCalls  []*BodyCall
	AtCalls    []*BodyCall
	Key        string // header text
	Ordinal    int    // 0 = any / first
	Invariants []*Clause
	Decreases  []*Clause
	Used       bool
	Complete   *BodyCall // "complete": the loop is left only when its range / condition is exhausted
	NoBreak    *BodyCall // "no_break": the loop is not left by break (returns in the body are allowed)
	Stable     []*Clause // "stable e": an iteration leaves the value of e as it found it
}

type Effect struct {
	Ghost string
	Key   *CExpr
	Val   *CExpr
	Cond  *CExpr
	Text  string
}

type Contract struct {
	AtReturns   []*Clause // hold at every return, may mention local variables in scope there
	PrintfLike  bool // last two parameters are (format string, args ...interface{}); the message must be nlfree
	Hints       []*Clause // ground instances of trusted mathematical lemmas, assumed at entry
	Uses        []string    // named lemmas (trusted specification axioms) assumed at entry
	BodyCalls   []*BodyCall // function level: the call is reached on a path to a return iff Cond
	AtCalls     []*BodyCall // function level: holds at every call of Fn in the body
	ForbidCalls []*BodyCall // functions that must not be called (directly) from the body
	Effects     []*Effect
	FreshWrites []string // ghost sets this function only writes at objects allocated during the call
	Fn        string
	Props     []string
	Requires  []*Clause
	Ensures   []*Clause
	Decreases []*Clause
	Loops     []*LoopSpec
	Trusted   string // non-empty: contract is assumed, body not verified
	// Callbacks: `callback P: ensures E` - postconditions of the function value handed over as parameter P:
	// assumed where the body calls P, checked where the function is called (the argument must be a function
	// of the package whose own contract has the same ensures clause)
	Callbacks map[string][]*Clause
	Pure      bool
	Modifies  []string // heap array names; nil = inferred
	HasMod    bool
	File      string
	Line      int
	Anchor    bool
	Inline    bool
}

type SpecFunc struct {
	Name   string
	Params []cvar
	Ret    string
}

type TypeInv struct {
	Type    string
	Expr    *CExpr
	Text    string
	Assumed bool // library type: assumed, never checked
}

type Contracts struct {
	Funcs       map[string]*Contract
	NonNilField map[string]bool // "T.f"
	NonNilElem  map[string]bool // type string of the slice/map type
	NonNilFieldProps map[string][]string
	NonNilBoxed map[string]bool // pointer types never boxed as typed nil in interfaces
	NlfreeString map[string]bool // types whose %s/%v rendering never contains a line break
	Specs       map[string]*SpecFunc
	TypeInvs    []*TypeInv
	FoldedKeys  map[string]bool // map type names whose keys are always lower-cased
	ImmutableField map[string][]string // "T.f" -> properties: the field is only written on objects allocated by the writing function
	FoldedKeyProps map[string][]string // extra properties served by the obligations on that map type
	FoldedField map[string]bool // "T.f" string fields that always hold lower-cased text
	FoldedElems map[string]bool // "T.f" []string fields whose elements are all lower-cased
	NlfreeField map[string]bool
	Ghosts      map[string]string // name -> type
	Axioms      []*Clause
	Lemmas      map[string]*Clause
	AutoEnsures [][2]string // (function regexp, clause text): candidates for the inference pass
	AutoInvs    [][2]string // (function regexp, invariant text): candidate invariants for every loop of the functions
	Files       []string
	Errors      []string
}

func splitProps(s string) ([]string, string) {
	s = strings.TrimSpace(s)
	if strings.HasPrefix(s, "[") {
		if i := strings.Index(s, "]"); i > 0 {
			ps := strings.FieldsFunc(s[1:i], func(r rune) bool { return r == ',' || r == ' ' })
			return ps, strings.TrimSpace(s[i+1:])
		}
	}
	return nil, s
}

func loadContracts(dir string) (*Contracts, error) {
	cs := &Contracts{
		Funcs:       map[string]*Contract{},
		NonNilField: map[string]bool{},
		NonNilElem:  map[string]bool{},
		NonNilFieldProps: map[string][]string{},
		NonNilBoxed: map[string]bool{},
		NlfreeString: map[string]bool{},
		Specs:       map[string]*SpecFunc{},
		FoldedKeys:  map[string]bool{},
		FoldedKeyProps: map[string][]string{},
		ImmutableField: map[string][]string{},
		FoldedField: map[string]bool{},
		FoldedElems: map[string]bool{},
		NlfreeField: map[string]bool{},
		Ghosts:      map[string]string{},
		Lemmas:      map[string]*Clause{},
	}
	files, _ := filepath.Glob(filepath.Join(dir, "verif_contracts_*.go"))
	sort.Strings(files)
	for _, f := range files {
		cs.Files = append(cs.Files, f)
		data, err := os.ReadFile(f)
		if err != nil {
			return nil, err
		}
		cs.parseFile(f, string(data))
	}
	if len(cs.Errors) > 0 {
		return cs, fmt.Errorf("contract errors:\n  %s", strings.Join(cs.Errors, "\n  "))
	}
	return cs, nil
}

func (cs *Contracts) errf(file string, line int, f string, a ...interface{}) {
	cs.Errors = append(cs.Errors, fmt.Sprintf("%s:%d: %s", filepath.Base(file), line, fmt.Sprintf(f, a...)))
}

func (cs *Contracts) parseFile(file, src string) {
	var cur *Contract
	var curLoop *LoopSpec
	var blockProps []string
	var pendingProps []*[]string
	var blockClauses []*Clause
	blockTrusted := false
	flushProps := func() {
		for _, pp := range pendingProps {
			if len(*pp) == 0 && len(blockProps) > 0 {
				*pp = append([]string{}, blockProps...)
			}
		}
		for _, c := range blockClauses {
			c.InTrustedBlock = blockTrusted
		}
		blockClauses = nil
		blockTrusted = false
		pendingProps = nil
		blockProps = nil
	}
	defer flushProps()
	lines := strings.Split(src, "\n")
	for i := 0; i < len(lines); i++ {
		ln := i + 1
		l := strings.TrimSpace(lines[i])
		if !strings.HasPrefix(l, "//@") {
			continue
		}
		l = strings.TrimSpace(l[3:])
		for strings.HasSuffix(l, "\\") && i+1 < len(lines) {
			nx := strings.TrimSpace(lines[i+1])
			if !strings.HasPrefix(nx, "//@") {
				break
			}
			l = strings.TrimSpace(l[:len(l)-1]) + " " + strings.TrimSpace(nx[3:])
			i++
		}
		if l == "" {
			continue
		}
		kw := l
		rest := ""
		if j := strings.IndexAny(l, " \t"); j > 0 {
			kw, rest = l[:j], strings.TrimSpace(l[j:])
		}
		mkClause := func(kind string) *Clause {
			props, txt := splitProps(rest)
			e, err := parseCExpr(txt)
			if err != nil {
				cs.errf(file, ln, "%v", err)
				return nil
			}
			c := &Clause{Kind: kind, Expr: e, Text: txt, Props: props, File: file, Line: ln, Auto: strings.Contains(file, "_auto")}
			pendingProps = append(pendingProps, &c.Props)
			blockClauses = append(blockClauses, c)
			return c
		}
		switch kw {
		case "func":
			flushProps()
			name := rest
			if j := strings.LastIndex(name, "("); j > 0 && strings.HasSuffix(name, ")") && !strings.HasPrefix(name[j:], "(*") {
				// strip optional parameter list "(a, b)"; careful with "(*T).m"
				if !strings.HasSuffix(name[:j], ")") || strings.Contains(name[:j], ").") {
					name = strings.TrimSpace(name[:j])
				}
			}
			if old, dup := cs.Funcs[name]; dup {
				cur = old // blocks for the same function in several files are merged
			} else {
				cur = &Contract{Fn: name, File: file, Line: ln}
				cs.Funcs[name] = cur
			}
			curLoop = nil
		case "props":
			// the properties of a block tag the clauses of that block (blocks of one function in several
			// files keep their own tags); the contract as a whole carries the union
			if cur != nil {
				blockProps = strings.Fields(rest)
				for _, p := range blockProps {
					dup := false
					for _, q := range cur.Props {
						if q == p {
							dup = true
						}
					}
					if !dup {
						cur.Props = append(cur.Props, p)
					}
				}
			}
		case "anchor":
			if cur != nil {
				cur.Anchor = true
			}
		case "inline":
			if cur != nil {
				cur.Inline = true
			}
		case "forbid_call":
			// forbid_call [props] F G ...: the body contains no direct call of these functions
			if cur == nil {
				cs.errf(file, ln, "forbid_call outside func block")
				continue
			}
			props, txt := splitProps(rest)
			for _, f := range splitFuncNames(txt) {
				fc := &BodyCall{Fn: f, Text: f, Props: props}
				pendingProps = append(pendingProps, &fc.Props)
				cur.ForbidCalls = append(cur.ForbidCalls, fc)
			}
		case "at_return":
			if cur == nil {
				cs.errf(file, ln, "at_return outside func block")
				continue
			}
			if c := mkClause("at_return"); c != nil {
				cur.AtReturns = append(cur.AtReturns, c)
			}
		case "requires", "ensures":
			if cur == nil {
				cs.errf(file, ln, "%s outside func block", kw)
				continue
			}
			c := mkClause(kw)
			if c == nil {
				continue
			}
			if kw == "requires" {
				cur.Requires = append(cur.Requires, c)
			} else {
				cur.Ensures = append(cur.Ensures, c)
			}
		case "decreases":
			if cur == nil {
				cs.errf(file, ln, "decreases outside func block")
				continue
			}
			c := mkClause(kw)
			if c == nil {
				continue
			}
			if curLoop != nil {
				curLoop.Decreases = append(curLoop.Decreases, c)
			} else {
				cur.Decreases = append(cur.Decreases, c)
			}
		case "stable":
			if curLoop == nil {
				cs.errf(file, ln, "stable outside loop block")
				continue
			}
			if c := mkClause("stable"); c != nil {
				curLoop.Stable = append(curLoop.Stable, c)
			}
		case "no_break":
			if curLoop == nil {
				cs.errf(file, ln, "no_break outside loop block")
				continue
			}
			props, _ := splitProps(rest)
			curLoop.NoBreak = &BodyCall{Text: "no_break", Props: props}
			pendingProps = append(pendingProps, &curLoop.NoBreak.Props)
		case "complete":
			// complete [props]: every element is processed - no break / return leaves the loop early
			if curLoop == nil {
				cs.errf(file, ln, "complete outside loop block")
				continue
			}
			props, _ := splitProps(rest)
			curLoop.Complete = &BodyCall{Text: "complete", Props: props}
			pendingProps = append(pendingProps, &curLoop.Complete.Props)
		case "invariant":
			if curLoop != nil {
				c := mkClause(kw)
				if c != nil {
					curLoop.Invariants = append(curLoop.Invariants, c)
				}
				continue
			}
			// type invariant: "invariant T: expr"
			j := strings.Index(rest, ":")
			if j < 0 {
				cs.errf(file, ln, "type invariant needs 'Type: expr'")
				continue
			}
			e, err := parseCExpr(strings.TrimSpace(rest[j+1:]))
			if err != nil {
				cs.errf(file, ln, "%v", err)
				continue
			}
			cs.TypeInvs = append(cs.TypeInvs, &TypeInv{Type: strings.TrimSpace(rest[:j]), Expr: e, Text: rest})
			cur = nil
		case "assume_inv":
			j := strings.Index(rest, ":")
			if j < 0 {
				cs.errf(file, ln, "assume_inv needs 'Type: expr'")
				continue
			}
			e, err := parseCExpr(strings.TrimSpace(rest[j+1:]))
			if err != nil {
				cs.errf(file, ln, "%v", err)
				continue
			}
			cs.TypeInvs = append(cs.TypeInvs, &TypeInv{Type: strings.TrimSpace(rest[:j]), Expr: e, Text: rest, Assumed: true})
			cur = nil
		case "loop":
			if cur == nil {
				cs.errf(file, ln, "loop outside func block")
				continue
			}
			r := strings.TrimSuffix(strings.TrimSpace(rest), ":")
			ord := 0
			if j := strings.LastIndex(r, "#"); j > 0 && strings.HasSuffix(strings.TrimSpace(r[:j]), "\"") {
				fmt.Sscanf(r[j+1:], "%d", &ord)
				r = strings.TrimSpace(r[:j])
			}
			if uq, err := strconv.Unquote(r); err == nil {
				r = uq
			} else {
				r = strings.Trim(r, "\"")
			}
			curLoop = nil
			for _, ls := range cur.Loops {
				if ls.Key == r && (ls.Ordinal == ord || (ls.Ordinal <= 1 && ord <= 1)) {
					curLoop = ls
				}
			}
			if curLoop == nil {
				curLoop = &LoopSpec{Key: r, Ordinal: ord}
				cur.Loops = append(cur.Loops, curLoop)
			}
		case "body_calls", "at_call", "body_stores", "at_store":
			// body_calls F iff COND      at_call F: EXPR      body_stores T.f iff COND      at_store T.f: EXPR
			// (at_store: EXPR holds at every store to field f of a T; `value` names the stored value)
			if curLoop == nil && cur == nil {
				cs.errf(file, ln, "%s outside func block", kw)
				continue
			}
			props, txt := splitProps(rest)
			sep := " iff "
			if kw == "at_call" || kw == "at_store" {
				sep = ": "
			}
			j := strings.Index(txt, sep)
			if j < 0 {
				cs.errf(file, ln, "%s needs %q", kw, sep)
				continue
			}
			ex, err := parseCExpr(strings.TrimSpace(txt[j+len(sep):]))
			if err != nil {
				cs.errf(file, ln, "%v", err)
				continue
			}
			bc := &BodyCall{Fn: strings.TrimSpace(txt[:j]), Text: txt, Props: props}
			pendingProps = append(pendingProps, &bc.Props)
			if kw == "body_stores" {
				bc.Fn = "store:" + bc.Fn
				bc.Text = "stores " + txt
				kw = "body_calls"
			}
			if kw == "at_store" {
				bc.Fn = "store:" + bc.Fn
				bc.Text = "store " + txt
				kw = "at_call"
			}
			switch {
			case kw == "body_calls" && curLoop != nil:
				bc.Cond = ex
				curLoop.BodyCalls = append(curLoop.BodyCalls, bc)
			case kw == "body_calls":
				bc.Cond = ex
				cur.BodyCalls = append(cur.BodyCalls, bc)
			case curLoop != nil:
				bc.Req = ex
				curLoop.AtCalls = append(curLoop.AtCalls, bc)
			default:
				bc.Req = ex
				cur.AtCalls = append(cur.AtCalls, bc)
			}
		case "endloop":
			curLoop = nil
		case "hint":
			if cur != nil {
				if c := mkClause("hint"); c != nil {
					cur.Hints = append(cur.Hints, c)
				}
			}
		case "uses":
			if cur != nil {
				cur.Uses = append(cur.Uses, strings.Fields(rest)...)
			}
		case "lemma":
			j := strings.Index(rest, ":")
			if j < 0 {
				cs.errf(file, ln, "lemma needs 'name: expr'")
				continue
			}
			ex, err := parseCExpr(strings.TrimSpace(rest[j+1:]))
			if err != nil {
				cs.errf(file, ln, "%v", err)
				continue
			}
			cs.Lemmas[strings.TrimSpace(rest[:j])] = &Clause{Kind: "lemma", Expr: ex, Text: strings.TrimSpace(rest[j+1:]), File: file, Line: ln}
			cur = nil
		case "effect":
			// effect g[key] = val [if cond]
			if cur == nil {
				cs.errf(file, ln, "effect outside func block")
				continue
			}
			txt := rest
			var cond *CExpr
			if j := strings.Index(txt, " if "); j > 0 {
				c, err := parseCExpr(strings.TrimSpace(txt[j+4:]))
				if err != nil {
					cs.errf(file, ln, "%v", err)
					continue
				}
				cond = c
				txt = txt[:j]
			}
			lb, rb := strings.Index(txt, "["), strings.Index(txt, "] =")
			if lb < 0 || rb < lb {
				cs.errf(file, ln, "effect needs 'g[key] = val'")
				continue
			}
			k, err := parseCExpr(strings.TrimSpace(txt[lb+1 : rb]))
			if err != nil {
				cs.errf(file, ln, "%v", err)
				continue
			}
			v, err := parseCExpr(strings.TrimSpace(txt[rb+3:]))
			if err != nil {
				cs.errf(file, ln, "%v", err)
				continue
			}
			cur.Effects = append(cur.Effects, &Effect{Ghost: strings.TrimSpace(txt[:lb]), Key: k, Val: v, Cond: cond, Text: rest})
		case "fresh_writes":
			if cur != nil {
				cur.FreshWrites = append(cur.FreshWrites, strings.Fields(rest)...)
			}
		case "callback":
			// callback P: ensures EXPR
			if cur == nil {
				cs.errf(file, ln, "callback outside func block")
				continue
			}
			j := strings.Index(rest, ":")
			if j < 0 || !strings.HasPrefix(strings.TrimSpace(rest[j+1:]), "ensures ") {
				cs.errf(file, ln, "callback needs 'P: ensures expr'")
				continue
			}
			pname := strings.TrimSpace(rest[:j])
			rest = strings.TrimSpace(strings.TrimPrefix(strings.TrimSpace(rest[j+1:]), "ensures "))
			if c := mkClause("ensures"); c != nil {
				if cur.Callbacks == nil {
					cur.Callbacks = map[string][]*Clause{}
				}
				cur.Callbacks[pname] = append(cur.Callbacks[pname], c)
			}
		case "trusted":
			if cur != nil {
				cur.Trusted = rest
				blockTrusted = true
				if cur.Trusted == "" {
					cur.Trusted = "trusted"
				}
			}
		case "pure":
			if cur != nil {
				cur.Pure = true
				cur.HasMod = true
			}
		case "modifies":
			if cur != nil {
				cur.HasMod = true
				for _, m := range strings.Split(rest, ",") {
					m = strings.TrimSpace(m)
					if m != "" && m != "nothing" {
						cur.Modifies = append(cur.Modifies, m)
					}
				}
			}
		case "nonnil":
			// nonnil T.f ... [also Cxx Cyy]: the extra properties are added to the obligations of these fields
			fl := rest
			var also []string
			if j := strings.Index(rest, " also "); j > 0 {
				fl, also = rest[:j], strings.Fields(rest[j+6:])
			}
			for _, f := range strings.Fields(fl) {
				cs.NonNilField[f] = true
				if len(also) > 0 {
					cs.NonNilFieldProps[f] = append(cs.NonNilFieldProps[f], also...)
				}
			}
			cur = nil
		case "nonnil_elems":
			cs.NonNilElem[strings.TrimSpace(rest)] = true
			cur = nil
		case "nonnil_boxed":
			cs.NonNilBoxed[strings.TrimSpace(rest)] = true
			cur = nil
		case "folded_keys":
			// folded_keys <map type> [also Cxx Cyy]
			ty := strings.TrimSpace(rest)
			if j := strings.Index(ty, " also "); j > 0 {
				cs.FoldedKeyProps[strings.TrimSpace(ty[:j])] = strings.Fields(ty[j+6:])
				ty = strings.TrimSpace(ty[:j])
			}
			cs.FoldedKeys[ty] = true
			cur = nil
		case "immutable":
			// immutable T.f [props...]
			fs := strings.Fields(rest)
			if len(fs) > 0 {
				cs.ImmutableField[fs[0]] = fs[1:]
			}
			cur = nil
		case "folded_elems":
			// folded_elems T.f .. [also Cxx ..]
			fl := rest
			var also []string
			if j := strings.Index(rest, " also "); j > 0 {
				fl, also = rest[:j], strings.Fields(rest[j+6:])
			}
			for _, f := range strings.Fields(fl) {
				cs.FoldedElems[f] = true
				if len(also) > 0 {
					cs.FoldedKeyProps["elems:"+f] = also
				}
			}
			cur = nil
		case "folded":
			for _, f := range strings.Fields(rest) {
				cs.FoldedField[f] = true
			}
			cur = nil
		case "nlfree":
			for _, f := range strings.Fields(rest) {
				cs.NlfreeField[f] = true
			}
			cur = nil
		case "nlfree_string":
			for _, f := range strings.Fields(rest) {
				cs.NlfreeString[f] = true
			}
			cur = nil
		case "printf_like":
			if cur != nil {
				cur.PrintfLike = true
			}
		case "spec":
			// spec name(a: T, b: U): R
			j := strings.Index(rest, "(")
			k := strings.LastIndex(rest, ")")
			if j < 0 || k < j {
				cs.errf(file, ln, "bad spec declaration")
				continue
			}
			sf := &SpecFunc{Name: strings.TrimSpace(rest[:j]), Ret: "bool"}
			for _, p := range strings.Split(rest[j+1:k], ",") {
				p = strings.TrimSpace(p)
				if p == "" {
					continue
				}
				v := cvar{Name: p}
				if c := strings.Index(p, ":"); c > 0 {
					v = cvar{Name: strings.TrimSpace(p[:c]), Type: strings.TrimSpace(p[c+1:])}
				}
				sf.Params = append(sf.Params, v)
			}
			if c := strings.Index(rest[k:], ":"); c >= 0 {
				sf.Ret = strings.TrimSpace(rest[k+c+1:])
			}
			cs.Specs[sf.Name] = sf
			cur = nil
		case "ghost":
			j := strings.Index(rest, ":")
			if j < 0 {
				cs.errf(file, ln, "ghost needs 'name: type'")
				continue
			}
			cs.Ghosts[strings.TrimSpace(rest[:j])] = strings.TrimSpace(rest[j+1:])
			cur = nil
		case "auto_ensures", "auto_invariant":
			j := strings.Index(rest, ": ")
			if j < 0 {
				cs.errf(file, ln, "%s needs 'regexp: expr'", kw)
				continue
			}
			if _, err := parseCExpr(strings.TrimSpace(rest[j+2:])); err != nil {
				cs.errf(file, ln, "%v", err)
				continue
			}
			if kw == "auto_ensures" {
				cs.AutoEnsures = append(cs.AutoEnsures, [2]string{strings.TrimSpace(rest[:j]), strings.TrimSpace(rest[j+2:])})
			} else {
				cs.AutoInvs = append(cs.AutoInvs, [2]string{strings.TrimSpace(rest[:j]), strings.TrimSpace(rest[j+2:])})
			}
			cur = nil
		case "axiom":
			c := mkClause("axiom")
			if c != nil {
				cs.Axioms = append(cs.Axioms, c)
			}
			cur = nil
		default:
			cs.errf(file, ln, "unknown directive %q", kw)
		}
	}
}

// splitFuncNames splits a space separated list of function names; a name may contain a
// parenthesised receiver such as "(*T).m".
func splitFuncNames(s string) []string {
	return strings.Fields(s)
}
