package main

// SMT term helpers. Terms are plain strings holding SMT-LIB 2 s-expressions.

import (
	"fmt"
	"go/types"
	"sort"
	"strconv"
	"strings"
)

type Term = string

func sx(op string, args ...Term) Term {
	if len(args) == 0 {
		return op
	}
	return "(" + op + " " + strings.Join(args, " ") + ")"
}

func And(ts ...Term) Term {
	var out []Term
	for _, t := range ts {
		if t == "true" || t == "" {
			continue
		}
		if t == "false" {
			return "false"
		}
		out = append(out, t)
	}
	switch len(out) {
	case 0:
		return "true"
	case 1:
		return out[0]
	}
	return sx("and", out...)
}

func Or(ts ...Term) Term {
	var out []Term
	for _, t := range ts {
		if t == "false" || t == "" {
			continue
		}
		if t == "true" {
			return "true"
		}
		out = append(out, t)
	}
	switch len(out) {
	case 0:
		return "false"
	case 1:
		return out[0]
	}
	return sx("or", out...)
}

func Not(t Term) Term {
	switch t {
	case "true":
		return "false"
	case "false":
		return "true"
	}
	if strings.HasPrefix(t, "(not ") && balanced(t[5:len(t)-1]) {
		return t[5 : len(t)-1]
	}
	return sx("not", t)
}

func balanced(s string) bool {
	d := 0
	inq := false
	for i := 0; i < len(s); i++ {
		c := s[i]
		if c == '|' {
			inq = !inq
		}
		if inq {
			continue
		}
		if c == '(' {
			d++
		} else if c == ')' {
			d--
			if d < 0 {
				return false
			}
		}
	}
	if d != 0 {
		return false
	}
	// must be a single term: either atom without spaces or one paren group
	if len(s) == 0 {
		return false
	}
	if s[0] == '(' {
		// check that first paren closes at end
		d = 0
		for i := 0; i < len(s); i++ {
			c := s[i]
			if c == '|' {
				inq = !inq
			}
			if inq {
				continue
			}
			if c == '(' {
				d++
			} else if c == ')' {
				d--
				if d == 0 && i != len(s)-1 {
					return false
				}
			}
		}
		return true
	}
	return !strings.ContainsAny(s, " ") || (s[0] == '|' && strings.Count(s, "|") == 2 && s[len(s)-1] == '|')
}

func Imp(a, b Term) Term {
	if a == "true" {
		return b
	}
	if a == "false" || b == "true" {
		return "true"
	}
	return sx("=>", a, b)
}

func Eq(a, b Term) Term {
	if a == b {
		return "true"
	}
	return sx("=", a, b)
}
func Ne(a, b Term) Term  { return Not(Eq(a, b)) }
func Ite(c, a, b Term) Term {
	if c == "true" {
		return a
	}
	if c == "false" {
		return b
	}
	if a == b {
		return a
	}
	return sx("ite", c, a, b)
}
func Sel(a, i Term) Term       { return sx("select", a, i) }
func Sto(a, i, v Term) Term    { return sx("store", a, i, v) }
func Add(a, b Term) Term {
	if b == "0" {
		return a
	}
	if a == "0" {
		return b
	}
	return sx("+", a, b)
}
func Sub(a, b Term) Term {
	if b == "0" {
		return a
	}
	return sx("-", a, b)
}
func Le(a, b Term) Term { return sx("<=", a, b) }
func Lt(a, b Term) Term { return sx("<", a, b) }
func Ge(a, b Term) Term { return sx(">=", a, b) }
func Gt(a, b Term) Term { return sx(">", a, b) }

func IntLit(n int64) Term {
	if n < 0 {
		return "(- " + strconv.FormatInt(-n, 10) + ")"
	}
	return strconv.FormatInt(n, 10)
}

// quoted symbol
func sym(s string) string {
	s = strings.ReplaceAll(s, "|", "!")
	s = strings.ReplaceAll(s, "\\", "!")
	simple := true
	for i := 0; i < len(s); i++ {
		c := s[i]
		if !(c >= 'a' && c <= 'z' || c >= 'A' && c <= 'Z' || c >= '0' && c <= '9' || c == '_' || c == '.' || c == '!' || c == '$' || c == '@') {
			simple = false
			break
		}
	}
	if simple && len(s) > 0 && !(s[0] >= '0' && s[0] <= '9') {
		return s
	}
	return "|" + s + "|"
}

// ---------------------------------------------------------------------------------------------
// Sorts

const (
	SInt   = "Int"
	SBool  = "Bool"
	SStr   = "Str"
	SFlt   = "Flt"
	SSlice = "Slice"
	SIface = "Iface"
)

// Prelude declares the fixed vocabulary.
const prelude = `(declare-sort Str 0)
(declare-sort Flt 0)
(declare-datatypes ((Slice 0)) (((mk_slice (s_arr Int) (s_off Int) (s_len Int) (s_cap Int)))))
(declare-datatypes ((Iface 0)) (((mk_iface (i_tag Int) (i_val Int)))))
(declare-fun slen (Str) Int)
(declare-fun sat (Str Int) Int)
(declare-fun ssub (Str Int Int) Str)
(declare-fun sconcat (Str Str) Str)
(declare-fun str_lt (Str Str) Bool)
(declare-fun lower (Str) Str)
(declare-fun box_str (Str) Int)
(declare-fun unbox_str (Int) Str)
(declare-fun box_flt (Flt) Int)
(declare-fun unbox_flt (Int) Flt)
(declare-fun box_bool (Bool) Int)
(declare-fun unbox_bool (Int) Bool)
(declare-fun box_slice (Slice) Int)
(declare-fun unbox_slice (Int) Slice)
(declare-fun box_iface (Iface) Int)
(declare-fun unbox_iface (Int) Iface)
(declare-fun rkind (Int) Int)
(declare-fun folded (Str) Bool)
(declare-fun nlfree (Str) Bool)
(declare-fun errtext (Iface) Str)
(declare-fun shared (Int) Bool)
(declare-fun bv_and (Int Int) Int)
(declare-fun bv_or (Int Int) Int)
(declare-fun bv_xor (Int Int) Int)
(declare-fun bv_shl (Int Int) Int)
(declare-fun bv_shr (Int Int) Int)
(declare-fun bv_andnot (Int Int) Int)
(declare-fun bv_not (Int) Int)
(declare-fun nl_mul (Int Int) Int)
(declare-fun nl_div (Int Int) Int)
(declare-fun nl_rem (Int Int) Int)
(declare-fun int2flt (Int) Flt)
(declare-fun flt2int (Flt) Int)
(declare-fun flt_lt (Flt Flt) Bool)
(declare-fun flt_le (Flt Flt) Bool)
(declare-fun flt_add (Flt Flt) Flt)
(declare-fun flt_sub (Flt Flt) Flt)
(declare-fun flt_mul (Flt Flt) Flt)
(declare-fun flt_div (Flt Flt) Flt)
(declare-fun flt_neg (Flt) Flt)
(declare-fun flt_isnan (Flt) Bool)
(declare-fun flt_lit (Int) Flt)
(declare-fun maplen_i (Int) Int)
(declare-const empty_str Str)
(assert (= (slen empty_str) 0))
(assert (and (nlfree empty_str) (folded empty_str) (= (lower empty_str) empty_str)))
(assert (= (rkind 0) 0))
(assert (forall ((b Str) (l1 Int) (h1 Int) (l2 Int) (h2 Int)) (! (=> (and (<= 0 l1) (<= l1 h1) (<= 0 l2) (<= l2 h2) (<= h2 (- h1 l1))) (= (ssub (ssub b l1 h1) l2 h2) (ssub b (+ l1 l2) (+ l1 h2)))) :pattern ((ssub (ssub b l1 h1) l2 h2)))))
(assert (forall ((b Str) (l Int) (h Int)) (! (=> (and (<= 0 l) (<= l h) (<= h (slen b))) (= (slen (ssub b l h)) (- h l))) :pattern ((ssub b l h)))))
(assert (forall ((b Str)) (! (= (ssub b 0 (slen b)) b) :pattern ((ssub b 0 (slen b))))))
(assert (forall ((a Str) (b Str) (c Str)) (! (= (sconcat (sconcat a b) c) (sconcat a (sconcat b c))) :pattern ((sconcat (sconcat a b) c)))))
(assert (forall ((s Str)) (! (=> (= (slen s) 0) (= s empty_str)) :pattern ((slen s)))))
(define-fun nil_slice () Slice (mk_slice 0 0 0 0))
(define-fun nil_iface () Iface (mk_iface 0 0))
(define-fun go_div ((x Int) (y Int)) Int (ite (>= x 0) (ite (> y 0) (div x y) (- (div x (- y)))) (ite (> y 0) (- (div (- x) y)) (div (- x) (- y)))))
`

// sortOf maps a Go type to an SMT sort name. Struct sorts are registered in the engine.
func (e *Engine) sortOf(t types.Type) string {
	switch u := t.Underlying().(type) {
	case *types.Basic:
		info := u.Info()
		switch {
		case info&types.IsBoolean != 0:
			return SBool
		case info&types.IsString != 0:
			return SStr
		case info&types.IsFloat != 0, info&types.IsComplex != 0:
			return SFlt
		default:
			return SInt
		}
	case *types.Slice:
		return SSlice
	case *types.Interface:
		return SIface
	case *types.Struct:
		return e.structSort(t)
	case *types.Array:
		return "(Array Int " + e.sortOf(u.Elem()) + ")"
	case *types.Tuple:
		return SInt // not a real value
	default:
		return SInt
	}
}

func (e *Engine) zeroOf(t types.Type) Term {
	switch u := t.Underlying().(type) {
	case *types.Basic:
		info := u.Info()
		switch {
		case info&types.IsBoolean != 0:
			return "false"
		case info&types.IsString != 0:
			return "empty_str"
		case info&types.IsFloat != 0, info&types.IsComplex != 0:
			return "(flt_lit 0)"
		default:
			return "0"
		}
	case *types.Slice:
		return "nil_slice"
	case *types.Interface:
		return "nil_iface"
	case *types.Struct:
		s := e.structSort(t)
		si := e.structs[s]
		var args []Term
		for _, f := range si.fields {
			args = append(args, e.zeroOf(f.Type()))
		}
		if len(args) == 0 {
			return si.ctor
		}
		return sx(si.ctor, args...)
	case *types.Array:
		return "((as const " + e.sortOf(t) + ") " + e.zeroOf(u.Elem()) + ")"
	default:
		return "0"
	}
}

type structInfo struct {
	sort   string
	ctor   string
	fields []*types.Var
	accs   []string
	decl   string
	deps   []string
}

// typeName gives a short stable name for a type, used to key heap arrays and sorts.
func (e *Engine) typeName(t types.Type) string {
	return types.TypeString(t, func(p *types.Package) string {
		if p == e.tpkg {
			return ""
		}
		return p.Name()
	})
}

func (e *Engine) structSort(t types.Type) string {
	key := e.typeName(t)
	if _, ok := t.Underlying().(*types.Struct); !ok {
		panic("structSort of non-struct " + key)
	}
	if _, ok := t.(*types.Named); !ok {
		if a, ok := t.(*types.Alias); ok {
			return e.structSort(types.Unalias(a))
		}
		// anonymous struct
		if n, ok := e.anonStructs[key]; ok {
			key = n
		} else {
			n := fmt.Sprintf("anon%d", len(e.anonStructs))
			e.anonStructs[key] = n
			key = n
		}
	}
	s := sym("S:" + key)
	if _, ok := e.structs[s]; ok {
		return s
	}
	st := t.Underlying().(*types.Struct)
	si := &structInfo{sort: s, ctor: sym("mk:" + key)}
	e.structs[s] = si // register before recursion (recursive struct values are impossible in Go)
	var parts []string
	for i := 0; i < st.NumFields(); i++ {
		f := st.Field(i)
		si.fields = append(si.fields, f)
		acc := sym("get:" + key + "." + f.Name())
		si.accs = append(si.accs, acc)
		fs := e.sortOf(f.Type())
		if _, isStruct := f.Type().Underlying().(*types.Struct); isStruct {
			si.deps = append(si.deps, fs)
		}
		if at, ok := f.Type().Underlying().(*types.Array); ok {
			if _, isStruct := at.Elem().Underlying().(*types.Struct); isStruct {
				si.deps = append(si.deps, e.sortOf(at.Elem()))
			}
		}
		parts = append(parts, "("+acc+" "+fs+")")
	}
	si.decl = fmt.Sprintf("(declare-datatypes ((%s 0)) (((%s %s))))", s, si.ctor, strings.Join(parts, " "))
	e.structOrder = append(e.structOrder, s)
	return s
}

// structDecls returns datatype declarations in dependency order.
func (e *Engine) structDecls() []string {
	done := map[string]bool{}
	var out []string
	var visit func(s string)
	visit = func(s string) {
		if done[s] {
			return
		}
		done[s] = true
		si := e.structs[s]
		if si == nil {
			return
		}
		for _, d := range si.deps {
			visit(d)
		}
		out = append(out, si.decl)
	}
	names := make([]string, 0, len(e.structs))
	for s := range e.structs {
		names = append(names, s)
	}
	sort.Strings(names)
	for _, s := range names {
		visit(s)
	}
	return out
}
