package main

import (
	"reflect"
	"go/constant"
	"fmt"
	"go/token"
	"go/types"
	"strings"

	"golang.org/x/tools/go/ssa"
)

func (vc *VC) setResult(call ssa.CallInstruction, terms []Term) {
	v := call.Value()
	if v == nil {
		return
	}
	sig := call.Common().Signature()
	if sig.Results().Len() > 1 {
		vc.tuple[v] = terms
		vc.val[v] = "0"
		return
	}
	if len(terms) == 1 {
		vc.val[v] = terms[0]
	}
}

// havocResults declares fresh results for a call with type facts.
func (vc *VC) havocResults(call ssa.CallInstruction) []Term {
	sig := call.Common().Signature()
	var out []Term
	for i := 0; i < sig.Results().Len(); i++ {
		rt := sig.Results().At(i).Type()
		n := vc.fresh(fmt.Sprintf("ret%d", i), vc.e.sortOf(rt))
		vc.gfact(vc.typeFacts(n, rt))
		out = append(out, n)
	}
	vc.setResult(call, out)
	return out
}

func (vc *VC) call(call ssa.CallInstruction) {
	c := call.Common()
	sp := vc.safetyProps()
	pos := call.Pos()
	if c.IsInvoke() {
		recv := vc.v(c.Value)
		vc.check("nil-iface", pos, "", Ne(sx("i_tag", recv), "0"), sp)
		key := "iface:" + vc.e.typeName(c.Value.Type()) + "." + c.Method.Name()
		if con := vc.e.cs.Funcs[key]; con != nil {
			args := []Term{recv}
			argTypes := []types.Type{c.Value.Type()}
			names := []string{"self"}
			sig := c.Method.Type().(*types.Signature)
			for i, a := range c.Args {
				args = append(args, vc.v(a))
				argTypes = append(argTypes, a.Type())
				n := sig.Params().At(i).Name()
				if n == "" {
					n = fmt.Sprintf("a%d", i)
				}
				names = append(names, n)
			}
			vc.applyContract(call, con, names, args, argTypes, vc.callModSet(call))
			return
		}
		if vc.libInvoke(call, recv) {
			return
		}
		vc.invokeImpls(call, recv)
		return
	}
	switch callee := c.Value.(type) {
	case *ssa.Builtin:
		vc.builtin(call, callee)
		return
	case *ssa.Function:
		vc.staticCall(call, callee, nil)
		return
	case *ssa.MakeClosure:
		if fn, ok := callee.Fn.(*ssa.Function); ok {
			vc.staticCall(call, fn, callee.Bindings)
			return
		}
	}
	// dynamic call
	f := vc.v(c.Value)
	vc.check("nil-func", pos, "", Ne(f, "0"), sp)
	vc.havoc(vc.callModSet(call))
	rs := vc.havocResults(call)
	// a call of a function-valued parameter under a `callback` contract
	if p, ok := c.Value.(*ssa.Parameter); ok && vc.con != nil && len(vc.con.Callbacks[p.Name()]) > 0 && len(rs) == 1 {
		ce := vc.envAt(vc.blk, vc.cur, nil)
		ce.result = []cval{{t: rs[0], typ: call.Value().Type()}}
		for _, cl := range vc.con.Callbacks[p.Name()] {
			ce.err = nil
			t := ce.evalTop(cl.Expr, true)
			if ce.err != nil {
				vc.unsupp("callback %q: %v", cl.Text, ce.err)
				continue
			}
			vc.gfact(t.t)
		}
	}
}

func (vc *VC) staticCall(call ssa.CallInstruction, callee *ssa.Function, bindings []ssa.Value) {
	c := call.Common()
	var args []Term
	var argTypes []types.Type
	for _, a := range c.Args {
		args = append(args, vc.v(a))
		argTypes = append(argTypes, a.Type())
	}
	// an in-place sort of a package-level table modifies what every other check sees
	if sortingFuncs[libName(callee)] || (callee.Pkg == vc.e.pkg && sortingFuncs[callee.Name()]) {
		for _, a := range c.Args {
			vc.sharedWriteCheck(call.Pos(), a)
		}
	}
	// at_call clauses of the enclosing loop and of the function
	{
		var acs []*BodyCall
		where := ""
		lh := vc.innermostLoop(vc.blk.Index)
		if lh < 0 {
			// a call on an exit path of a loop (e.g. in a return statement of the body) is not part of
			// the natural loop; it still belongs to the source loop that contains it
			lh = vc.srcLoopAt(call.Pos())
		}
		if h := lh; h >= 0 {
			if ls := vc.loopSpecs[h]; ls != nil {
				acs = append(acs, ls.AtCalls...)
				where = "loop " + ls.Key + ": "
			}
		}
		if vc.con != nil {
			acs = append(acs, vc.con.AtCalls...)
		}
		{
			for _, ac := range acs {
				if ac.Fn != vc.e.fname(callee) && ac.Fn != libName(callee) {
					continue
				}
				vc.evalPos = call.Pos()
				ce := vc.envAt(vc.blk, vc.cur, nil)
				vc.evalPos = token.NoPos
				if h := lh; h >= 0 {
					for _, hb := range vc.fn.Blocks {
						if hb.Index == h {
							hce := vc.envAt(hb, vc.cur, nil)
							if rx, ok := hce.vars["range_x"]; ok {
								ce.vars["range_x"] = rx
							}
							vc.iterationNames(hb, ce)
						}
					}
				}
				for i, p := range callee.Params {
					if i < len(args) {
						ce.vars[p.Name()] = cval{t: args[i], typ: argTypes[i], src: vc.fromField[c.Args[i]]}
					}
				}
				t := ce.evalTop(ac.Req, true)
				if ce.err != nil {
					vc.unsupp("at_call %q: %v", ac.Text, ce.err)
					continue
				}
				pr := ac.Props
				if len(pr) == 0 && vc.con != nil {
					pr = vc.con.Props
				}
				w := where
				if vc.con != nil {
					for _, x := range vc.con.AtCalls {
						if x == ac {
							w = ""
						}
					}
				}
				vc.check("at-call", call.Pos(), w+ac.Text, t.t, pr)
			}
		}
	}
	// arguments that are interior pointers (addresses of fields) escape into the callee
	var escaped []*LV
	for _, a := range c.Args {
		if l, ok := vc.lv[a]; ok {
			escaped = append(escaped, l)
		}
	}
	// a location whose address was handed to a library function earlier (flag.BoolVar(&x, ..)) may be
	// written by any later call (flags.Parse)
	for _, l := range vc.escapedLib {
		vc.havocLV(l)
	}
	if !(callee.Pkg == vc.e.pkg && callee.Blocks != nil) {
		vc.escapedLib = append(vc.escapedLib, escaped...)
		// cells (variables of basic type) whose address a library function has seen
		for n := range vc.libCells {
			vc.arrCur(n, vc.libCells[n])
			vc.havocArr(n)
		}
		for _, a := range c.Args {
			if pt, ok := a.Type().Underlying().(*types.Pointer); ok && !isStruct(pt.Elem()) {
				if _, isAlloc := a.(*ssa.Alloc); isAlloc {
					n, srt := vc.e.cellArr(pt.Elem())
					if vc.libCells == nil {
						vc.libCells = map[string]string{}
					}
					vc.libCells[n] = srt
				}
			}
		}
	}
	if callee.Pkg == vc.e.pkg && callee.Blocks != nil {
		vc.mapOrderReportCheck(call, callee)
		name := vc.e.fname(callee)
		con := vc.e.cs.Funcs[name]
		if con != nil && len(con.Callbacks) > 0 {
			vc.callbackCheck(call, callee, con)
		}
		if con != nil && con.PrintfLike && len(c.Args) >= 2 {
			na := len(c.Args)
			// forwarding one's own (format, args) is covered by the caller's own call sites
			forwarded := vc.con != nil && vc.con.PrintfLike && len(vc.fn.Params) >= 2 &&
				c.Args[na-2] == ssa.Value(vc.fn.Params[len(vc.fn.Params)-2]) && c.Args[na-1] == ssa.Value(vc.fn.Params[len(vc.fn.Params)-1])
			if !forwarded {
				cond, ok := vc.nlfreeOfFormat(c.Args[na-2], c.Args[na-1])
				if !ok {
					cond = "false"
				}
				vc.check("nlfree-msg", call.Pos(), "", cond, []string{"C16"})
			}
		}
		m := vc.callModSet(call)
		if con != nil {
			var names []string
			for _, p := range callee.Params {
				names = append(names, p.Name())
			}
			if con.Trusted != "" {
				vc.usedTrusted[name] = true
			}
			vc.applyContract(call, con, names, args, argTypes, m)
		} else {
			vc.havoc(m)
			vc.havocResults(call)
		}
		for _, l := range escaped {
			vc.havocLV(l)
		}
		return
	}
	// library function
	if vc.libCall(call, callee, args) {
		for _, l := range escaped {
			vc.havocLV(l)
		}
		return
	}
	m := vc.callModSet(call)
	vc.havoc(m)
	vc.havocResults(call)
	for _, l := range escaped {
		vc.havocLV(l)
	}
}

func (vc *VC) havocLV(l *LV) {
	if l.arr == "" {
		return
	}
	v := vc.fresh("escaped", vc.e.sortOf(l.typ))
	vc.gfact(vc.typeFacts(v, l.typ))
	vc.writeLV(l, v)
}

// applyContract: assert requires, havoc modifies, assume ensures.
func (vc *VC) applyContract(call ssa.CallInstruction, con *Contract, names []string, args []Term, argTypes []types.Type, m *ModSet) {
	pre := vc.cur.clone()
	ce := &cenv{vc: vc, vars: map[string]cval{}, heap: pre, old: pre, allocOld: pre.alloc}
	for i, n := range names {
		if i < len(args) {
			ce.vars[n] = cval{t: args[i], typ: argTypes[i]}
			// (<param>0, the entry value of the parameter, is the argument for the caller)
			ce.vars[n+"0"] = cval{t: args[i], typ: argTypes[i]}
		}
	}
	props := con.Props
	if len(props) == 0 {
		props = vc.safetyProps()
	}
	for _, r := range con.Requires {
		ce.err = nil
		t := ce.evalTop(r.Expr, true)
		if ce.err != nil {
			vc.unsupp("requires of %s: %v", con.Fn, ce.err)
			continue
		}
		pr := props
		if len(r.Props) > 0 {
			pr = r.Props
		}
		vc.check("requires", call.Pos(), con.Fn+": "+r.Text, t.t, pr)
	}
	if con.HasMod {
		mm := newModSet()
		for _, n := range con.Modifies {
			mm.add(n, modOld)
		}
		m = mm
	}
	// ghost effects of a definer are exact: do not havoc the ghost sets it defines
	if len(con.Effects) > 0 && !m.All {
		mm := newModSet()
		for k, v := range m.Arr {
			mm.Arr[k] = v
		}
		for _, ef := range con.Effects {
			delete(mm.Arr, "GH:"+ef.Ghost)
		}
		m = mm
	}
	vc.freshWriteChecks(call, con, m)
	vc.havoc(m)
	vc.applyEffects(con, ce, call.Pos())
	res := vc.havocResults(call)
	ce.heap = vc.cur
	sig := call.Common().Signature()
	for i, r := range res {
		ce.result = append(ce.result, cval{t: r, typ: sig.Results().At(i).Type()})
		ce.resNm = append(ce.resNm, sig.Results().At(i).Name())
	}
	for _, en := range con.Ensures {
		ce.err = nil
		t := ce.evalTop(en.Expr, false)
		if ce.err != nil {
			vc.unsupp("ensures of %s: %v", con.Fn, ce.err)
			continue
		}
		vc.gfact(t.t)
	}
}

// ------------------------------------------------------------------------------------------
// builtins

func (vc *VC) builtin(call ssa.CallInstruction, b *ssa.Builtin) {
	c := call.Common()
	sp := vc.safetyProps()
	v := call.Value()
	switch b.Name() {
	case "len":
		a := vc.v(c.Args[0])
		switch c.Args[0].Type().Underlying().(type) {
		case *types.Slice:
			vc.setVal(v, sx("s_len", a))
		case *types.Basic:
			vc.setVal(v, sx("slen", a))
		case *types.Map:
			vc.setVal(v, vc.mapLen(vc.cur, a, c.Args[0].Type().Underlying().(*types.Map)))
		default:
			vc.havocVal(v)
		}
		vc.gfact(Ge(vc.val[v], "0"))
	case "cap":
		a := vc.v(c.Args[0])
		if _, ok := c.Args[0].Type().Underlying().(*types.Slice); ok {
			vc.setVal(v, sx("s_cap", a))
		} else {
			vc.havocVal(v)
		}
	case "append":
		vc.appendCall(call)
	case "copy":
		vc.havoc(vc.callModSet(call))
		n := vc.havocVal(v)
		vc.gfact(Ge(n, "0"))
	case "delete":
		mt := c.Args[0].Type().Underlying().(*types.Map)
		m, k := vc.v(c.Args[0]), vc.v(c.Args[1])
		if key, obj := vc.fieldOfMap(c.Args[0]); key != "" {
			vc.atStoreClauses(key, call.Pos(), "", nil, vc.v(obj), obj.Type())
		}
		d, _, ds, _ := vc.e.mapArrs(mt)
		da := vc.arrCur(d, ds)
		// delete on nil map is a no-op
		vc.setArr(d, ds, Ite(Eq(m, "0"), da, Sto(da, m, Sto(Sel(da, m), k, "false"))))
	case "panic":
		vc.check("panic", call.Pos(), "", "false", sp)
	case "print", "println", "recover":
		if v != nil {
			vc.havocVal(v)
		}
	case "min", "max":
		if len(c.Args) == 2 && vc.e.sortOf(v.Type()) == SInt {
			a, bb := vc.v(c.Args[0]), vc.v(c.Args[1])
			if b.Name() == "min" {
				vc.setVal(v, Ite(Le(a, bb), a, bb))
			} else {
				vc.setVal(v, Ite(Ge(a, bb), a, bb))
			}
		} else {
			vc.havocVal(v)
		}
	case "ssa:wrapnilchk":
		a := vc.v(c.Args[0])
		vc.check("nil", call.Pos(), "", Ne(a, "0"), sp)
		vc.val[v] = a
	default:
		vc.unsupp("builtin %s", b.Name())
		if v != nil {
			vc.havocVal(v)
		}
	}
}

// appendCall models append as copy-on-append: the result has a fresh backing array.
func (vc *VC) appendCall(call ssa.CallInstruction) {
	c := call.Common()
	v := call.Value()
	sp := vc.safetyProps()
	st := c.Args[0].Type().Underlying().(*types.Slice)
	s := vc.v(c.Args[0])
	if len(c.Args) < 2 {
		vc.val[v] = s
		return
	}
	vc.mapOrderCheck(call)
	en, es := vc.e.elemArr(st.Elem())
	nonnil := vc.e.cs.NonNilElem[vc.e.typeName(c.Args[0].Type())] && canBeNil(st.Elem())
	// fixed number of appended elements (varargs array)?
	if sl, ok := c.Args[1].(*ssa.Slice); ok && sl.Low == nil && sl.High == nil {
		if al, ok := sl.X.(*ssa.Alloc); ok {
			if at, ok := deref(al.Type()).Underlying().(*types.Array); ok && at.Len() <= 8 {
				src := vc.v(al)
				E := vc.arrCur(en, es)
				a := vc.allocRef("append")
				contents := Sel(E, sx("s_arr", s))
				base := Add(sx("s_off", s), sx("s_len", s))
				for i := int64(0); i < at.Len(); i++ {
					el := Sel(Sel(E, src), IntLit(i))
					if nonnil {
						if ob := vc.check("nonnil-append", call.Pos(), "", Not(vc.isNil(el, st.Elem())), sp); ob != nil {
							ob.Detail = vc.e.typeName(c.Args[0].Type())
						}
					}
					vc.disciplineAppend(call, el)
					contents = Sto(contents, Add(base, IntLit(i)), el)
				}
				nl := Add(sx("s_len", s), IntLit(at.Len()))
				cp := vc.fresh("cap", SInt)
				vc.fact(Ge(cp, nl))
				// Go appends in place when the capacity suffices: the backing array of s is written and the
				// result shares it; otherwise the elements are copied into a new array
				inplace := And(Ne(sx("s_arr", s), "0"), Le(nl, sx("s_cap", s)))
				Ecur := vc.arrCur(en, es)
				vc.setArr(en, es, Ite(inplace, Sto(Ecur, sx("s_arr", s), contents), Sto(Ecur, a, contents)))
				vc.setVal(v, Ite(inplace, sx("mk_slice", sx("s_arr", s), sx("s_off", s), nl, sx("s_cap", s)), sx("mk_slice", a, sx("s_off", s), nl, cp)))
				return
			}
		}
	}
	// general case: append(s, t...)
	t := vc.v(c.Args[1])
	var tl Term
	if vc.e.sortOf(c.Args[1].Type()) == SStr {
		tl = sx("slen", t)
	} else {
		tl = sx("s_len", t)
	}
	a := vc.allocRef("append")
	E := vc.arrCur(en, es)
	inner := "(Array Int " + vc.e.sortOf(st.Elem()) + ")"
	contents := vc.fresh("contents", inner)
	off := sx("s_off", s)
	nl := Add(sx("s_len", s), tl)
	cp := vc.fresh("cap", SInt)
	vc.fact(Ge(cp, nl))
	// Go appends in place when the capacity suffices (the backing array of s is written from its end on, the
	// result shares it); otherwise into a new array
	inplace := And(Ne(sx("s_arr", s), "0"), Le(nl, sx("s_cap", s)))
	ipc := vc.fresh("inplace", inner)
	vc.gfact(fmt.Sprintf("(forall ((j Int)) (! (=> (or (< j (+ %s %s)) (>= j (+ %s %s))) (= (select %s j) (select (select %s %s) j))) :pattern ((select %s j))))",
		off, sx("s_len", s), off, nl, ipc, E, sx("s_arr", s), ipc))
	vc.setArr(en, es, Ite(inplace, Sto(E, sx("s_arr", s), ipc), Sto(E, a, contents)))
	// append(nil, empty...) stays nil
	vc.setVal(v, Ite(And(Eq(sx("s_arr", s), "0"), Eq(tl, "0")), "nil_slice",
		Ite(inplace, sx("mk_slice", sx("s_arr", s), off, nl, sx("s_cap", s)), sx("mk_slice", a, off, nl, cp))))
	// contents of the result, stated on elements (triggers: the elements of the operands)
	E2 := vc.arrCur(en, es)
	res := vc.val[v]
	vc.gfact(fmt.Sprintf("(forall ((i Int)) (! (=> (and (<= 0 i) (< i %s)) (= %s %s)) :pattern (%s) :pattern (%s)))",
		sx("s_len", s), vc.eltTerm(st.Elem(), E2, res, "i"), vc.eltTerm(st.Elem(), E, s, "i"), vc.eltTerm(st.Elem(), E2, res, "i"), vc.eltTerm(st.Elem(), E, s, "i")))
	if vc.e.sortOf(c.Args[1].Type()) == SSlice {
		vc.gfact(fmt.Sprintf("(forall ((i Int)) (! (=> (and (<= 0 i) (< i %s)) (= %s %s)) :pattern (%s)))",
			tl, vc.eltTerm(st.Elem(), E2, res, "(+ "+sx("s_len", s)+" i)"), vc.eltTerm(st.Elem(), E, t, "i"), vc.eltTerm(st.Elem(), E, t, "i")))
	}
	if nonnil && !vc.e.cs.NonNilElem[vc.e.typeName(c.Args[1].Type())] {
		if ob := vc.check("nonnil-append", call.Pos(), "", Eq(tl, "0"), sp); ob != nil {
			ob.Detail = vc.e.typeName(c.Args[0].Type())
		}
	}
}

func (vc *VC) disciplineAppend(call ssa.CallInstruction, el Term) {}

// ------------------------------------------------------------------------------------------
// library

func (vc *VC) libInvoke(call ssa.CallInstruction, recv Term) bool {
	c := call.Common()
	name := c.Method.Name()
	switch {
	case name == "Error" && len(c.Args) == 0:
		// the text of an error value: errtext(e), a function of the value
		if v := call.Value(); v != nil {
			vc.setVal(v, sx("errtext", recv))
			vc.gfact(Ge(sx("slen", sx("errtext", recv)), "0"))
			return true
		}
		vc.havocResults(call)
		return true
	case name == "IsDir" && len(c.Args) == 0 && strings.HasSuffix(vc.e.typeName(c.Value.Type()), "FileInfo"):
		// what os.Stat found: a function of the FileInfo value (tied to statdir(path) where os.Stat returns it)
		if v := call.Value(); v != nil {
			fn := sym("spec:infoisdir")
			vc.declareFun(fn, []string{SIface}, "Bool")
			vc.setVal(v, sx(fn, recv))
			return true
		}
	}
	return false
}

func (vc *VC) libCall(call ssa.CallInstruction, callee *ssa.Function, args []Term) bool {
	name := libName(callee)
	c := call.Common()
	v := call.Value()
	sp := vc.safetyProps()
	strRes := func() Term {
		r := vc.havocResults(call)
		return r[0]
	}
	vc.usedLib[name] = true
	vc.formatConstCheck(call, callee)
	switch name {
	case "strings.ToLower":
		vc.setVal(v, sx("lower", args[0]))
		n := vc.val[v]
		vc.gfact(And(sx("folded", n), Eq(sx("lower", n), n), Ge(sx("slen", n), "0")))
		vc.gfact(Imp(sx("folded", args[0]), Eq(n, args[0])))
		vc.gfact(Eq(sx("nlfree", n), sx("nlfree", args[0])))
		vc.gfact(Eq(Eq(sx("slen", n), "0"), Eq(sx("slen", args[0]), "0")))
		return true
	case "strings.HasPrefix", "strings.HasSuffix":
		var r Term
		if name == "strings.HasPrefix" {
			// pure: available to contracts as hasprefix(s, p)
			fn := sym("spec:hasprefix")
			vc.declareFun(fn, []string{SStr, SStr}, "Bool")
			r = sx(fn, args[0], args[1])
			vc.setVal(v, r)
		} else {
			r = strRes()
		}
		vc.gfact(Imp(r, Ge(sx("slen", args[0]), sx("slen", args[1]))))
		vc.gfact(Imp(Eq(sx("slen", args[1]), "0"), r))
		if name == "strings.HasPrefix" {
			vc.gfact(Imp(And(r, Gt(sx("slen", args[1]), "0")), Eq(sx("sat", args[0], "0"), sx("sat", args[1], "0"))))
			vc.gfact(Imp(And(Eq(sx("slen", args[1]), "1"), Gt(sx("slen", args[0]), "0")), Eq(r, Eq(sx("sat", args[0], "0"), sx("sat", args[1], "0")))))
		}
		return true
	case "strings.Compare":
		r := strRes()
		vc.gfact(And(Eq(Eq(r, "0"), Eq(args[0], args[1])), Ge(r, "(- 1)"), Le(r, "1")))
		return true
	case "strings.Contains":
		// by definition strings.Contains(s, sub) is strings.Index(s, sub) >= 0
		fn := sym("spec:index")
		vc.declareFun(fn, []string{SStr, SStr}, SInt)
		ix := sx(fn, args[0], args[1])
		vc.setVal(v, Ge(ix, "0"))
		vc.gfact(And(Ge(ix, "(- 1)"), Imp(Ge(ix, "0"), Le(Add(ix, sx("slen", args[1])), sx("slen", args[0])))))
		return true
	case "strings.ContainsRune", "strings.ContainsAny", "strings.EqualFold":
		strRes()
		return true
	case "strings.Index", "strings.IndexByte", "strings.IndexRune", "strings.LastIndex", "strings.IndexAny", "strings.LastIndexByte":
		var r Term
		if name == "strings.Index" {
			// pure: available to contracts as index(s, sub)
			fn := sym("spec:index")
			vc.declareFun(fn, []string{SStr, SStr}, SInt)
			r = sx(fn, args[0], args[1])
			vc.setVal(v, r)
		} else {
			r = strRes()
		}
		sub := "1"
		if name == "strings.Index" || name == "strings.LastIndex" {
			sub = sx("slen", args[1])
		}
		vc.gfact(And(Ge(r, "(- 1)"), Le(Add(r, sub), Ite(Ge(r, "0"), sx("slen", args[0]), Add(sx("slen", args[0]), sub)))))
		vc.gfact(Imp(Ge(r, "0"), Le(Add(r, sub), sx("slen", args[0]))))
		// the byte found (single-byte needles): keeps candidate models of the counterexample search realistic
		switch name {
		case "strings.IndexByte", "strings.LastIndexByte", "strings.IndexRune":
			vc.gfact(Imp(And(Ge(r, "0"), Ge(args[1], "0"), Lt(args[1], "128")), Eq(sx("sat", args[0], r), args[1])))
		case "strings.Index", "strings.LastIndex":
			vc.gfact(Imp(And(Ge(r, "0"), Eq(sx("slen", args[1]), "1")), Eq(sx("sat", args[0], r), sx("sat", args[1], "0"))))
		}
		if name == "strings.Index" {
			// the text found: the suffix of s that starts at the result starts with the needle
			fn := sym("spec:index")
			vc.gfact(Imp(Ge(r, "0"), Eq(sx(fn, sx("ssub", args[0], r, sx("slen", args[0])), args[1]), "0")))
		}
		return true
	case "strings.TrimSpace", "strings.TrimLeft", "strings.TrimRight", "strings.Trim", "strings.TrimPrefix", "strings.TrimSuffix", "strings.TrimFunc", "strings.TrimLeftFunc", "strings.TrimRightFunc":
		r := strRes()
		vc.gfact(Le(sx("slen", r), sx("slen", args[0])))
		vc.gfact(Imp(sx("nlfree", args[0]), sx("nlfree", r)))
		vc.gfact(Imp(sx("folded", args[0]), sx("folded", r)))
		return true
	case "strings.Repeat":
		vc.check("lib-pre", call.Pos(), "strings.Repeat: count >= 0", Ge(args[1], "0"), sp)
		r := strRes()
		vc.gfact(Imp(sx("nlfree", args[0]), sx("nlfree", r)))
		return true
	case "strings.ReplaceAll":
		// line breaks are LF and CR: nlfree(t) <=> lffree(t) && crfree(t) (stated for the three texts of this
		// call). Replacing every LF (CR) by a text without LF (CR) leaves none; the other kind of line break
		// is absent afterwards iff it was absent from the input and the replacement.
		r := strRes()
		for _, fn := range []string{"lffree", "crfree"} {
			vc.declareFun(sym(fn), []string{SStr}, "Bool")
		}
		for _, t := range []Term{args[0], args[2], r} {
			vc.gfact(Eq(sx("nlfree", t), And(sx("lffree", t), sx("crfree", t))))
		}
		oldLit := ""
		if k, ok := c.Args[1].(*ssa.Const); ok && k.Value != nil && k.Value.Kind() == constant.String {
			oldLit = constant.StringVal(k.Value)
		}
		keepLF := Imp(And(sx("lffree", args[0]), sx("lffree", args[2])), sx("lffree", r))
		keepCR := Imp(And(sx("crfree", args[0]), sx("crfree", args[2])), sx("crfree", r))
		switch {
		case oldLit == "\n":
			vc.gfact(Imp(sx("lffree", args[2]), sx("lffree", r)))
			vc.gfact(keepCR)
		case oldLit == "\r":
			vc.gfact(Imp(sx("crfree", args[2]), sx("crfree", r)))
			vc.gfact(keepLF)
		case oldLit != "" && !strings.ContainsAny(oldLit, "\n\r"):
			vc.gfact(keepLF)
			vc.gfact(keepCR)
		}
		return true
	case "strings.Join":
		// the result has no line break when neither the separator nor any element has one
		r := strRes()
		if st, ok := c.Args[0].Type().Underlying().(*types.Slice); ok {
			n, srt := vc.e.elemArr(st.Elem())
			E := vc.arrCur(n, srt)
			vc.gfact(fmt.Sprintf("(=> (and (nlfree %s) (forall ((j Int)) (=> (and (<= 0 j) (< j (s_len %s))) (nlfree %s)))) (nlfree %s))",
				args[1], args[0], vc.eltTerm(st.Elem(), E, args[0], "j"), r))
		}
		return true
	case "strings.Replace", "strings.Title", "strings.ToUpper", "strings.Map":
		strRes()
		return true
	case "strings.Split", "strings.SplitN", "strings.Fields":
		r := strRes()
		if name != "strings.Fields" {
			vc.gfact(Imp(Ne(sx("slen", args[1]), "0"), Ge(sx("s_len", r), "1")))
		}
		return true
	case "strings.Count":
		r := strRes()
		vc.gfact(Ge(r, "0"))
		return true
	case "strings.NewReader", "strings.NewReplacer", "bytes.NewReader", "bufio.NewScanner", "bufio.NewReader", "bufio.NewWriter", "bytes.NewBuffer", "bytes.NewBufferString", "json.NewDecoder", "json.NewEncoder", "yaml.NewDecoder", "yaml.NewEncoder":
		r := strRes()
		vc.gfact(Ne(r, "0"))
		return true
	case "strconv.AppendQuote", "strconv.AppendQuoteRune", "strconv.AppendQuoteToASCII", "strconv.AppendInt":
		// quoting escapes control characters: what is appended has no line break (bytesnl: "these bytes
		// contain a line break", a property of the slice value as it is handed on at once)
		r := strRes()
		bn := sym("spec:bytesnl")
		vc.declareFun(bn, []string{SSlice}, "Bool")
		vc.gfact(Imp(Or(Eq(sx("s_len", args[0]), "0"), Not(sx(bn, args[0]))), Not(sx(bn, r))))
		vc.gfact(Ge(sx("s_len", r), sx("s_len", args[0])))
		return true
	case "strconv.Quote", "strconv.QuoteRune", "strconv.QuoteToASCII":
		r := strRes()
		vc.gfact(And(sx("nlfree", r), Ge(sx("slen", r), "2")))
		return true
	case "strconv.Itoa", "strconv.FormatInt", "strconv.FormatFloat", "strconv.FormatBool":
		r := strRes()
		vc.gfact(And(sx("nlfree", r), Ge(sx("slen", r), "1")))
		return true
	case "strconv.ParseFloat", "strconv.ParseInt", "strconv.Atoi", "strconv.ParseUint", "strconv.ParseBool", "strconv.Unquote":
		r := vc.havocResults(call)
		if len(r) == 2 && name != "strconv.Unquote" {
			// *strconv.NumError renders as `strconv.F: parsing "<quoted input>": <fixed reason>`
			vc.gfact(sx("nlfree", sx("errtext", r[1])))
			vc.usedTrusted["errors of strconv.Parse* / Atoi quote their input (no raw line break in their text)"] = true
		}
		return true
	case "math.IsNaN":
		vc.setVal(v, sx("flt_isnan", args[0]))
		return true
	case "fmt.Sprintf", "fmt.Sprint", "fmt.Sprintln", "fmt.Errorf", "errors.New":
		r := strRes()
		if name == "fmt.Errorf" || name == "errors.New" {
			vc.gfact(Ne(sx("i_tag", r), "0"))
			// the error's text is the formatted message / the given string
			if name == "errors.New" {
				vc.gfact(Eq(sx("errtext", r), args[0]))
			} else if len(c.Args) == 2 {
				if cond, ok := vc.nlfreeOfFormat(c.Args[0], c.Args[1]); ok {
					vc.gfact(Imp(cond, sx("nlfree", sx("errtext", r))))
				}
			}
			return true
		}
		vc.sprintfFacts(call, r)
		return true
	case "fmt.Fprint", "fmt.Fprintf", "fmt.Fprintln", "fmt.Print", "fmt.Printf", "fmt.Println":
		vc.havocResults(call)
		return true
	case "sort.Strings", "sort.Ints":
		// sorts the elements of its argument in place: only the backing array of that slice changes, and
		// every element afterwards is one of the elements before (perm: a permutation of the indices)
		if st, ok := c.Args[0].Type().Underlying().(*types.Slice); ok {
			n, srt := vc.e.elemArr(st.Elem())
			E := vc.arrCur(n, srt)
			inner := strings.TrimSuffix(strings.TrimPrefix(srt, "(Array Int "), ")")
			fresh := vc.fresh("sorted", inner)
			vc.nfresh++
			pf := sym(fmt.Sprintf("perm!%d", vc.nfresh))
			vc.declareFun(pf, []string{SInt}, SInt)
			sl := args[0]
			E2 := Sto(E, sx("s_arr", sl), fresh)
			vc.setArr(n, srt, E2)
			vc.gfact(fmt.Sprintf("(forall ((j Int)) (! (=> (and (<= 0 j) (< j (s_len %s))) (and (<= 0 (%s j)) (< (%s j) (s_len %s)) (= %s %s))) :pattern (%s)))",
				sl, pf, pf, sl, vc.eltTerm(st.Elem(), E2, sl, "j"), vc.eltTerm(st.Elem(), E, sl, sx(pf, "j")), vc.eltTerm(st.Elem(), E2, sl, "j")))
			// positions of the backing array outside the slice are untouched
			vc.gfact(fmt.Sprintf("(forall ((j Int)) (! (=> (or (< j (s_off %s)) (>= j (+ (s_off %s) (s_len %s)))) (= (select %s j) (select (select %s (s_arr %s)) j))) :pattern ((select %s j))))",
				sl, sl, sl, fresh, E, sl, fresh))
			vc.havocResults(call)
			return true
		}
		vc.havoc(vc.callModSet(call))
		vc.havocResults(call)
		return true
	case "sort.Sort", "sort.Stable", "sort.Slice", "sort.SliceStable":
		vc.havoc(vc.callModSet(call))
		vc.havocResults(call)
		if name == "sort.Sort" || name == "sort.Stable" {
			// the slice handed over (boxed as sort.Interface) is sorted afterwards: issorted(s) for contracts
			if mi, ok := c.Args[0].(*ssa.MakeInterface); ok {
				x := mi.X
				if ct, ok := x.(*ssa.ChangeType); ok {
					x = ct.X
				}
				if _, isSlice := x.Type().Underlying().(*types.Slice); isSlice {
					fn := sym("spec:issorted")
					vc.declareFun(fn, []string{SSlice}, "Bool")
					vc.gfact(sx(fn, vc.v(x)))
				}
			}
		}
		return true
	case "utf8.RuneCountInString", "utf8.RuneCount":
		r := strRes()
		if name == "utf8.RuneCountInString" {
			vc.gfact(And(Ge(r, "0"), Le(r, sx("slen", args[0])), Imp(Gt(sx("slen", args[0]), "0"), Gt(r, "0"))))
		} else {
			vc.gfact(Ge(r, "0"))
		}
		return true
	case "utf8.RuneLen":
		r := strRes()
		vc.gfact(And(Ge(r, "(- 1)"), Le(r, "4")))
		return true
	case "runewidth.StringWidth":
		// pure: the display width is a function of the text
		fn := sym("spec:strwidth")
		vc.declareFun(fn, []string{SStr}, "Int")
		vc.setVal(v, sx(fn, args[0]))
		vc.gfact(Ge(sx(fn, args[0]), "0"))
		return true
	case "runewidth.RuneWidth":
		r := strRes()
		vc.gfact(Ge(r, "0"))
		return true
	case "filepath.ToSlash":
		// pure: available to contracts as toslash(p)
		fn := sym("spec:toslash")
		vc.declareFun(fn, []string{SStr}, SStr)
		vc.setVal(v, sx(fn, args[0]))
		vc.gfact(Ge(sx("slen", sx(fn, args[0])), "0"))
		return true
	case "json.Unmarshal":
		// the error is a function of the input bytes: jsonbad(data) (available to contracts)
		fn := sym("spec:jsonbad")
		vc.declareFun(fn, []string{SSlice}, "Bool")
		vc.havoc(vc.callModSet(call))
		r := vc.havocResults(call)
		vc.gfact(Eq(Ne(sx("i_tag", r[0]), "0"), sx(fn, args[0])))
		// *json.SyntaxError / *json.UnmarshalTypeError name an offending character quoted ('\n') or a Go type
		vc.gfact(sx("nlfree", sx("errtext", r[0])))
		vc.usedTrusted["errors of json.Unmarshal, url.Parse and filepath.Match quote what they echo (no raw line break in their text)"] = true
		return true
	case "(*yaml.Node).Decode":
		// decoding a YAML node into a struct with `yaml:"key"` tags: what ends up in a field is a function of
		// the node and the key (spec functions yhas / ybool / ystr, available to contracts):
		//   key present (yhas(node, key): with a non-null value):  *T field non-nil, bool field ybool(node, key),
		//   string field ystr(node, key);   key absent: the field keeps the value it had before the call
		//   (yaml.v3 does not zero the target).
		// Fields of other types stay unconstrained. Known only when Decode reports no error.
		target := c.Args[len(c.Args)-1]
		if mi, ok := target.(*ssa.MakeInterface); ok {
			target = mi.X
		}
		// the fields before the call: yaml.v3 leaves a field alone when its key is absent
		pre := map[int]Term{}
		if pt, ok := target.Type().Underlying().(*types.Pointer); ok && isStruct(pt.Elem()) {
			st := pt.Elem().Underlying().(*types.Struct)
			for i := 0; i < st.NumFields(); i++ {
				if isStruct(st.Field(i).Type()) {
					continue
				}
				n, srt, _ := vc.e.fieldArr(pt.Elem(), i)
				pre[i] = Sel(vc.arrCur(n, srt), vc.v(target))
			}
		}
		vc.havoc(vc.callModSet(call))
		r := vc.havocResults(call)
		if pt, ok := target.Type().Underlying().(*types.Pointer); ok && isStruct(pt.Elem()) && len(r) == 1 {
			st := pt.Elem().Underlying().(*types.Struct)
			ref := vc.v(target)
			okT := Eq(sx("i_tag", r[0]), "0")
			yhas, ybool, ystr := sym("spec:yhas"), sym("spec:ybool"), sym("spec:ystr")
			vc.declareFun(yhas, []string{"Int", SStr}, "Bool")
			vc.declareFun(ybool, []string{"Int", SStr}, "Bool")
			vc.declareFun(ystr, []string{"Int", SStr}, SStr)
			for i := 0; i < st.NumFields(); i++ {
				key := reflect.StructTag(st.Tag(i)).Get("yaml")
				if j := strings.Index(key, ","); j >= 0 {
					key = key[:j]
				}
				if key == "" || key == "-" {
					continue
				}
				n, srt, ft := vc.e.fieldArr(pt.Elem(), i)
				fv := Sel(vc.arrCur(n, srt), ref)
				k := vc.strLit(key)
				has := sx(yhas, args[0], k)
				old, hasOld := pre[i]
				switch u := ft.Underlying().(type) {
				case *types.Pointer:
					vc.gfact(Imp(And(okT, has), Ne(fv, "0")))
					if hasOld {
						vc.gfact(Imp(And(okT, Not(has)), Eq(fv, old)))
					}
				case *types.Basic:
					switch {
					case u.Kind() == types.Bool:
						vc.gfact(Imp(And(okT, has), Eq(fv, sx(ybool, args[0], k))))
						if hasOld {
							vc.gfact(Imp(And(okT, Not(has)), Eq(fv, old)))
						}
					case u.Kind() == types.String:
						vc.gfact(Imp(And(okT, has), Eq(fv, sx(ystr, args[0], k))))
						if hasOld {
							vc.gfact(Imp(And(okT, Not(has)), Eq(fv, old)))
						}
					}
				}
			}
			vc.usedTrusted["(*yaml.Node).Decode into a tagged struct: pointer field non-nil iff the key is present (yhas), bool/string fields are functions of node and key (ybool, ystr)"] = true
		}
		return true
	case "filepath.Rel":
		// a function of its two arguments: pathrel(base, target), failing iff relbad(base, target)
		rf, bf := sym("spec:pathrel"), sym("spec:relbad")
		vc.declareFun(rf, []string{SStr, SStr}, SStr)
		vc.declareFun(bf, []string{SStr, SStr}, "Bool")
		r := vc.havocResults(call)
		if len(r) == 2 {
			vc.gfact(Eq(Ne(sx("i_tag", r[1]), "0"), sx(bf, args[0], args[1])))
			vc.gfact(Imp(Not(sx(bf, args[0], args[1])), Eq(r[0], sx(rf, args[0], args[1]))))
			vc.gfact(Ge(sx("slen", sx(rf, args[0], args[1])), "0"))
		}
		return true
	case "filepath.IsAbs":
		fn := sym("spec:isabs")
		vc.declareFun(fn, []string{SStr}, "Bool")
		vc.setVal(v, sx(fn, args[0]))
		return true
	case "url.Parse", "filepath.Match", "path.Match":
		// *url.Error renders as `parse "<quoted url>": <reason>`; Match only fails with ErrBadPattern
		r := vc.havocResults(call)
		if len(r) == 2 {
			vc.gfact(sx("nlfree", sx("errtext", r[1])))
			vc.usedTrusted["errors of json.Unmarshal, url.Parse and filepath.Match quote what they echo (no raw line break in their text)"] = true
		}
		return true
	case "os.IsPathSeparator":
		// '/' (on Windows also '\\', which never separates path elements on the platforms the proofs speak about)
		vc.setVal(v, Eq(args[0], "47"))
		vc.usedTrusted["os.IsPathSeparator(c) is c == '/' (Unix)"] = true
		return true
	case "filepath.Dir":
		// pure: available to contracts as pathdir(p)
		fn := sym("spec:pathdir")
		vc.declareFun(fn, []string{SStr}, SStr)
		vc.setVal(v, sx(fn, args[0]))
		vc.gfact(Ge(sx("slen", sx(fn, args[0])), "0"))
		return true
	case "filepath.Join":
		// pure; with two or three elements available to contracts as pathjoin(a, b) and
		// pathjoin(pathjoin(a, b), c)
		if sl, ok := c.Args[0].(*ssa.Slice); ok {
			if al, ok := sl.X.(*ssa.Alloc); ok {
				if at, ok := deref(al.Type()).Underlying().(*types.Array); ok && (at.Len() == 2 || at.Len() == 3) && sl.Low == nil && sl.High == nil {
					fn := sym("spec:pathjoin")
					vc.declareFun(fn, []string{SStr, SStr}, SStr)
					en, es := vc.e.elemArr(at.Elem())
					E := vc.arrCur(en, es)
					el := func(i int) Term { return vc.eltTerm(at.Elem(), E, args[0], IntLit(int64(i))) }
					r := sx(fn, el(0), el(1))
					if at.Len() == 3 {
						r = sx(fn, r, el(2))
					}
					vc.setVal(v, r)
					vc.gfact(Ge(sx("slen", r), "0"))
					return true
				}
			}
		}
		strRes()
		return true
	case "os.Stat", "os.Lstat":
		// the file system is read once per path as far as the contracts are concerned: statok(path) -
		// the call succeeds, statdir(path) - it finds a directory
		okf, dirf, inf := sym("spec:statok"), sym("spec:statdir"), sym("spec:infoisdir")
		vc.declareFun(okf, []string{SStr}, "Bool")
		vc.declareFun(dirf, []string{SStr}, "Bool")
		vc.declareFun(inf, []string{SIface}, "Bool")
		r := vc.havocResults(call)
		if len(r) == 2 {
			vc.gfact(Eq(Eq(sx("i_tag", r[1]), "0"), sx(okf, args[0])))
			vc.gfact(Imp(sx(okf, args[0]), And(Ne(sx("i_tag", r[0]), "0"), Eq(sx(inf, r[0]), sx(dirf, args[0])))))
			vc.usedTrusted["os.Stat is a function of the path within one run (statok, statdir): the file system does not change while files are attributed to projects"] = true
		}
		return true
	case "filepath.Clean", "filepath.Base", "filepath.FromSlash", "filepath.Ext", "path.Join", "path.Clean":
		strRes()
		return true
	case "os.Getenv":
		strRes()
		return true
	case "regexp.Compile", "regexp.MustCompile":
		// deterministic: the compiled expression is a function of the pattern text
		fn := sym("spec:recompile")
		vc.declareFun(fn, []string{SStr}, "Int")
		r := vc.havocResults(call)
		if name == "regexp.MustCompile" {
			vc.gfact(And(Ne(r[0], "0"), Eq(r[0], sx(fn, args[0]))))
		} else if len(r) == 2 {
			vc.gfact(Imp(Eq(sx("i_tag", r[1]), "0"), And(Ne(r[0], "0"), Eq(r[0], sx(fn, args[0])))))
			vc.gfact(Imp(Ne(sx("i_tag", r[1]), "0"), Eq(r[0], "0")))
		}
		return true
	case "(*bufio.Scanner).Text":
		// assumed library contract (default split function bufio.ScanLines): the token is one line without
		// its terminator - no LF and no trailing CR. Available to contracts as scanline(s).
		r := strRes()
		fn := sym("spec:scanline")
		vc.declareFun(fn, []string{SStr}, "Bool")
		vc.gfact(sx(fn, r))
		return true
	case "(*regexp.Regexp).MatchString":
		// pure: a function of the compiled expression and the text
		fn := sym("spec:rematch")
		vc.declareFun(fn, []string{"Int", SStr}, "Bool")
		vc.setVal(v, sx(fn, args[0], args[1]))
		return true
	case "(*exec.ExitError).ExitCode", "(*os.ProcessState).ExitCode":
		fn := sym("spec:exitcode")
		vc.declareFun(fn, []string{"Int"}, "Int")
		vc.setVal(v, sx(fn, args[0]))
		return true
	case "doublestar.MatchUnvalidated":
		fn := sym("spec:globmatch")
		vc.declareFun(fn, []string{SStr, SStr}, "Bool")
		vc.setVal(v, sx(fn, args[0], args[1]))
		return true
	}
	// text/scanner: abstract model. A scanner s reads the rune sequence src(s); pos(s) runes have been consumed.
	//   rune_at(n) = n < len ? rune(n) : EOF;  Peek() = rune_at(pos);  Next() = rune_at(pos), pos++ unless EOF
	switch name {
	case "(*scanner.Scanner).Init", "(*scanner.Scanner).Peek", "(*scanner.Scanner).Next", "(*scanner.Scanner).Pos":
		vc.declareFun("sc_rune", []string{"Int", "Int"}, "Int")
		vc.declareFun("sc_len", []string{"Int"}, "Int")
		sc := args[0]
		srcA, posA := vc.arrCur("SC:src", "(Array Int Int)"), vc.arrCur("SC:pos", "(Array Int Int)")
		src, pos := Sel(srcA, sc), Sel(posA, sc)
		runeAt := func(id, n Term) Term {
			return Ite(Ge(n, sx("sc_len", id)), "(- 1)", sx("sc_rune", id, n))
		}
		switch name {
		case "(*scanner.Scanner).Init":
			id := vc.fresh("scansrc", SInt)
			vc.fact(Ge(sx("sc_len", id), "0"))
			vc.setArr("SC:src", "(Array Int Int)", Sto(srcA, sc, id))
			vc.setArr("SC:pos", "(Array Int Int)", Sto(posA, sc, "0"))
			vc.setResult(call, []Term{sc})
		case "(*scanner.Scanner).Peek":
			r := vc.fresh("peek", SInt)
			vc.fact(Eq(r, runeAt(src, pos)))
			vc.gfact(And(Ge(pos, "0"), Le(pos, sx("sc_len", src)), Imp(Lt(pos, sx("sc_len", src)), Ge(sx("sc_rune", src, pos), "0")), Ge(r, "(- 1)"), Le(r, "1114111")))
			vc.setResult(call, []Term{r})
		case "(*scanner.Scanner).Next":
			r := vc.fresh("next", SInt)
			vc.fact(Eq(r, runeAt(src, pos)))
			vc.gfact(And(Ge(pos, "0"), Le(pos, sx("sc_len", src)), Imp(Lt(pos, sx("sc_len", src)), Ge(sx("sc_rune", src, pos), "0")), Ge(r, "(- 1)"), Le(r, "1114111")))
			vc.setArr("SC:pos", "(Array Int Int)", Sto(posA, sc, Ite(Eq(r, "(- 1)"), pos, Add(pos, "1"))))
			vc.setResult(call, []Term{r})
		case "(*scanner.Scanner).Pos":
			rs := vc.havocResults(call)
			if len(rs) == 1 {
				sort := vc.e.sortOf(call.Common().Signature().Results().At(0).Type())
				if si := vc.e.structs[sort]; si != nil {
					for i, f := range si.fields {
						switch f.Name() {
						case "Offset", "Column":
							vc.gfact(Ge(sx(si.accs[i], rs[0]), "0"))
						case "Line":
							vc.gfact(Ge(sx(si.accs[i], rs[0]), "1"))
						}
					}
				}
			}
		}
		return true
	}
	// methods on library types: pattern based
	switch {
	case strings.HasPrefix(name, "(*strings.Builder)."), strings.HasPrefix(name, "(*bytes.Buffer)."):
		rs := vc.havocResults(call)
		m := name[strings.LastIndex(name, ".")+1:]
		{
			// the line-break bit of the builder (see builderArr)
			B := vc.arrCur(builderArr, builderSort)
			has := Sel(B, args[0])
			set := func(t Term) { vc.setArr(builderArr, builderSort, Sto(B, args[0], t)) }
			switch m {
			case "WriteString":
				set(Or(has, Not(sx("nlfree", args[1]))))
			case "WriteByte":
				set(Or(has, Eq(args[1], "10"), Eq(args[1], "13")))
			case "WriteRune":
				set(Or(has, Eq(args[1], "10"), Eq(args[1], "13")))
			case "Write":
				bn := sym("spec:bytesnl")
				vc.declareFun(bn, []string{SSlice}, "Bool")
				set(Or(has, sx(bn, args[1])))
			case "Reset":
				set("false")
			case "String":
				if len(rs) == 1 {
					vc.gfact(Eq(sx("nlfree", rs[0]), Not(has)))
				}
			case "Len", "Cap", "Grow":
			default:
				set(vc.fresh("hasnl", "Bool"))
			}
			// the length of the builder's content
			L := vc.arrCur(builderLenArr, builderLenSort)
			cur := Sel(L, args[0])
			setLen := func(t Term) { vc.setArr(builderLenArr, builderLenSort, Sto(L, args[0], t)) }
			vc.gfact(Ge(cur, "0"))
			switch m {
			case "WriteString":
				setLen(Add(cur, sx("slen", args[1])))
			case "WriteByte":
				setLen(Add(cur, "1"))
			case "WriteRune":
				n := vc.fresh("runelen", SInt)
				vc.gfact(And(Ge(n, "1"), Le(n, "4")))
				setLen(Add(cur, n))
			case "Write":
				setLen(Add(cur, sx("s_len", args[1])))
			case "Reset":
				setLen("0")
			case "String":
				if len(rs) == 1 {
					vc.gfact(Eq(sx("slen", rs[0]), cur))
				}
			case "Len":
				if len(rs) == 1 {
					vc.gfact(Eq(rs[0], cur))
				}
			case "Cap", "Grow":
			default:
				n := vc.fresh("buflen", SInt)
				vc.gfact(Ge(n, "0"))
				setLen(n)
			}
		}
		if m == "Grow" {
			vc.check("lib-pre", call.Pos(), "Grow: n >= 0", Ge(args[1], "0"), sp)
		}
		if m == "Len" && len(rs) == 1 {
			vc.gfact(Ge(rs[0], "0"))
		}
		_ = c
		return true
	}
	return false
}

// sprintfFacts: the nlfree discipline for formatted strings (C16).
func (vc *VC) sprintfFacts(call ssa.CallInstruction, r Term) {
	c := call.Common()
	callee := c.StaticCallee()
	if callee == nil || vc.e.sortOf(call.Value().Type()) != SStr {
		return
	}
	switch libName(callee) {
	case "fmt.Sprintf":
		if len(c.Args) != 2 {
			return
		}
		// inside a printf-like wrapper the message is nlfree by the wrapper's call-site obligation
		if vc.con != nil && vc.con.PrintfLike && len(vc.fn.Params) >= 2 {
			np := len(vc.fn.Params)
			if c.Args[0] == ssa.Value(vc.fn.Params[np-2]) && c.Args[1] == ssa.Value(vc.fn.Params[np-1]) {
				vc.gfact(sx("nlfree", r))
				return
			}
		}
		if cond, ok := vc.nlfreeOfFormat(c.Args[0], c.Args[1]); ok {
			vc.gfact(Imp(cond, sx("nlfree", r)))
		}
		// a format made of literal text and plain %s verbs whose arguments are strings: the result is exactly the
		// concatenation of the pieces
		if k, ok := c.Args[0].(*ssa.Const); ok && k.Value != nil && k.Value.Kind() == constant.String {
			if vals, ok := varargValues(c.Args[1]); ok {
				f := constant.StringVal(k.Value)
				var pieces []Term
				ai, exact := 0, true
				lit := ""
				flush := func() {
					if lit != "" {
						pieces = append(pieces, vc.strLit(lit))
						lit = ""
					}
				}
				for i := 0; i < len(f) && exact; i++ {
					if f[i] != '%' {
						lit += string(f[i])
						continue
					}
					if i+1 < len(f) && f[i+1] == '%' {
						lit += "%"
						i++
						continue
					}
					if i+1 >= len(f) || f[i+1] != 's' || ai >= len(vals) {
						exact = false
						break
					}
					a := vals[ai]
					ai++
					if mi, ok := a.(*ssa.MakeInterface); ok {
						a = mi.X
					}
					if b, ok := a.Type().Underlying().(*types.Basic); !ok || b.Kind() != types.String {
						exact = false
						break
					}
					flush()
					pieces = append(pieces, vc.v(a))
					i++
				}
				if exact && ai == len(vals) {
					flush()
					if len(pieces) > 0 {
						t := pieces[len(pieces)-1]
						for j := len(pieces) - 2; j >= 0; j-- {
							t = sx("sconcat", pieces[j], t)
						}
						vc.gfact(Eq(r, t))
					}
				}
			}
		}
		// a format starting with literal text: the result starts with the same character
		if k, ok := c.Args[0].(*ssa.Const); ok && k.Value != nil && k.Value.Kind() == constant.String {
			if f := constant.StringVal(k.Value); len(f) > 0 && f[0] != '%' {
				vc.gfact(And(Ge(sx("slen", r), "1"), Eq(sx("sat", r, "0"), IntLit(int64(f[0])))))
			}
		}
	}
}

var _ = token.NoPos

// libName gives "pkgname.Func" or "(*pkgname.T).Method" for a library function.
func libName(f *ssa.Function) string {
	q := func(p *types.Package) string { return p.Name() }
	if recv := f.Signature.Recv(); recv != nil {
		return "(" + types.TypeString(recv.Type(), q) + ")." + f.Name()
	}
	if f.Pkg != nil {
		return f.Pkg.Pkg.Name() + "." + f.Name()
	}
	return f.String()
}

// invokeImpls models dynamic dispatch on an in-package interface through the contracts of the
// implementers: each implementer's requires must hold when the dynamic type is its receiver type,
// and its ensures may be assumed in that case.
func (vc *VC) invokeImpls(call ssa.CallInstruction, recv Term) {
	c := call.Common()
	impls := vc.e.implementers(c.Value.Type(), c.Method)
	type implInfo struct {
		con   *Contract
		g     *ssa.Function
		guard Term
		names []string
		args  []Term
		typs  []types.Type
	}
	var infos []implInfo
	pre := vc.cur.clone()
	for _, g := range impls {
		con := vc.e.cs.Funcs[vc.e.fname(g)]
		if con == nil || len(g.Params) == 0 {
			continue
		}
		rt := g.Params[0].Type()
		guard := Eq(sx("i_tag", recv), IntLit(int64(vc.e.tagOf(rt))))
		rv := vc.unbox(sx("i_val", recv), rt)
		if _, isPtr := rt.Underlying().(*types.Pointer); isPtr && vc.e.cs.NonNilBoxed[vc.e.typeName(rt)] {
			// discipline: this pointer type is never boxed as a typed nil
			vc.gfact(Imp(guard, Ne(rv, "0")))
		}
		inf := implInfo{con: con, g: g, guard: guard}
		inf.names = append(inf.names, g.Params[0].Name())
		inf.args = append(inf.args, rv)
		inf.typs = append(inf.typs, rt)
		for i, a := range c.Args {
			if i+1 < len(g.Params) {
				inf.names = append(inf.names, g.Params[i+1].Name())
				inf.args = append(inf.args, vc.v(a))
				inf.typs = append(inf.typs, a.Type())
			}
		}
		infos = append(infos, inf)
	}
	for _, inf := range infos {
		ce := &cenv{vc: vc, vars: map[string]cval{}, heap: pre, old: pre, allocOld: pre.alloc}
		for i, n := range inf.names {
			ce.vars[n] = cval{t: inf.args[i], typ: inf.typs[i]}
		}
		props := inf.con.Props
		if len(props) == 0 {
			props = vc.safetyProps()
		}
		for _, r := range inf.con.Requires {
			ce.err = nil
			t := ce.eval(r.Expr)
			if ce.err != nil {
				continue
			}
			pr := props
			if len(r.Props) > 0 {
				pr = r.Props
			}
			vc.check("requires", call.Pos(), inf.con.Fn+": "+r.Text, Imp(inf.guard, t.t), pr)
		}
	}
	vc.havoc(vc.callModSet(call))
	res := vc.havocResults(call)
	sig := call.Common().Signature()
	for _, inf := range infos {
		ce := &cenv{vc: vc, vars: map[string]cval{}, heap: vc.cur, old: pre, allocOld: pre.alloc}
		for i, n := range inf.names {
			ce.vars[n] = cval{t: inf.args[i], typ: inf.typs[i]}
		}
		for i, r := range res {
			ce.result = append(ce.result, cval{t: r, typ: sig.Results().At(i).Type()})
			ce.resNm = append(ce.resNm, sig.Results().At(i).Name())
		}
		for _, en := range inf.con.Ensures {
			ce.err = nil
			t := ce.eval(en.Expr)
			if ce.err != nil {
				continue
			}
			vc.gfact(Imp(inf.guard, t.t))
		}
	}
}

// applyEffects performs the ghost updates of a definer contract. ce evaluates in the pre-state.
func (vc *VC) applyEffects(con *Contract, ce *cenv, pos token.Pos) {
	for _, ef := range con.Effects {
		gty, ok := vc.e.cs.Ghosts[ef.Ghost]
		if !ok {
			vc.unsupp("effect on undeclared ghost %s", ef.Ghost)
			continue
		}
		srt, _ := ghostSort(vc.e, gty)
		ce.err = nil
		k := ce.eval(ef.Key)
		v := ce.eval(ef.Val)
		cond := Term("true")
		if ef.Cond != nil {
			cond = ce.eval(ef.Cond).t
		}
		if ce.err != nil {
			vc.unsupp("effect %s: %v", ef.Text, ce.err)
			continue
		}
		if vc.con != nil {
			for _, g := range vc.con.FreshWrites {
				if g == ef.Ghost {
					vc.check("fresh-writes", pos, g+"["+ef.Key.String()+"]", Imp(cond, Gt(ce.refOf(k), "alloc!0")), vc.con.Props)
				}
			}
		}
		name := "GH:" + ef.Ghost
		cur := vc.arrCur(name, srt)
		vc.setArr(name, srt, Ite(cond, Sto(cur, ce.refOf(k), v.t), cur))
	}
}

// freshWriteChecks: when the current function declares fresh_writes g, every write to g must be at
// an object allocated since the function's entry.
func (vc *VC) freshWriteChecks(call ssa.CallInstruction, callee *Contract, m *ModSet) {
	if vc.con == nil || len(vc.con.FreshWrites) == 0 {
		return
	}
	for _, g := range vc.con.FreshWrites {
		handled := false
		if callee != nil {
			for _, ef := range callee.Effects {
				if ef.Ghost != g {
					continue
				}
				handled = true
				// evaluated at the call site below (key known only there): done in applyContract via ce
			}
		}
		if handled {
			continue
		}
		if m.All {
			vc.check("fresh-writes", call.Pos(), g+": callee may write anywhere", "false", vc.con.Props)
			continue
		}
		if lvl, has := m.Arr["GH:"+g]; has && lvl != modFresh {
			vc.check("fresh-writes", call.Pos(), g+": callee is not declared fresh_writes", "false", vc.con.Props)
		}
	}
}

// srcLoopAt: header of the innermost source loop whose text contains pos (-1 if none).
func (vc *VC) srcLoopAt(pos token.Pos) int {
	best := -1
	var bestLen token.Pos
	if !pos.IsValid() {
		return -1
	}
	for h, l := range vc.hdrSrc {
		if l == nil || pos < l.Pos() || pos > l.End() {
			continue
		}
		if n := l.End() - l.Pos(); best < 0 || n < bestLen {
			best, bestLen = h, n
		}
	}
	return best
}

// formatConstCheck: a library function with a (format string, args ...interface{}) tail must be given a
// format that is program text (a constant, or built from constants), or the format parameter of an
// enclosing printf-like wrapper whose own call sites are checked: a run-time string used as a format
// would have its % sequences interpreted (C16: messages are rendered verbatim).
func (vc *VC) formatConstCheck(call ssa.CallInstruction, callee *ssa.Function) {
	sig := callee.Signature
	np := sig.Params().Len()
	if !sig.Variadic() || np < 2 || !strings.HasSuffix(callee.Name(), "f") {
		return
	}
	ft, ok := sig.Params().At(np - 2).Type().Underlying().(*types.Basic)
	if !ok || ft.Info()&types.IsString == 0 {
		return
	}
	if sl, ok := sig.Params().At(np - 1).Type().(*types.Slice); !ok || !types.IsInterface(sl.Elem()) {
		return
	}
	args := call.Common().Args
	if len(args) < 2 {
		return
	}
	f := args[len(args)-2]
	var isText func(v ssa.Value, d int) bool
	isText = func(v ssa.Value, d int) bool {
		if d > 8 {
			return false
		}
		switch x := v.(type) {
		case *ssa.Const:
			return true
		case *ssa.BinOp:
			return x.Op == token.ADD && isText(x.X, d+1) && isText(x.Y, d+1)
		case *ssa.Phi:
			for _, e := range x.Edges {
				if !isText(e, d+1) {
					return false
				}
			}
			return true
		case *ssa.Parameter:
			ps := vc.fn.Params
			return vc.con != nil && vc.con.PrintfLike && len(ps) >= 2 && x == ps[len(ps)-2]
		}
		return false
	}
	cond := Term("false")
	if isText(f, 0) {
		cond = "true"
	}
	vc.check("format-const", call.Pos(), "", cond, []string{"C16"})
}

// mapOrderCheck (C02): an append executed inside a loop that ranges over a map builds a slice whose
// element order is the map iteration order of that run. The obligation holds iff the slice (followed
// through phis, re-slicing, appends and loads/stores of the same struct field) is handed to a sorting
// function somewhere in the function; otherwise the order can leak into the output.
var sortingFuncs = map[string]bool{
	"sort.Strings": true, "sort.Ints": true, "sort.Float64s": true, "sort.Slice": true, "sort.SliceStable": true,
	"sort.Sort": true, "sort.Stable": true, "slices.Sort": true, "slices.SortFunc": true, "slices.SortStableFunc": true,
	"sortedQuotes": true,
}

// mapLoopsAround: the loops over maps that contain the current block: header -> its Next instruction
func (vc *VC) mapLoopsAround() map[int]*ssa.Next {
	mapLoops := map[int]*ssa.Next{}
	for h, set := range vc.loopBlks {
		if !set[vc.blk.Index] {
			continue
		}
		for _, b := range vc.fn.Blocks {
			if b.Index != h {
				continue
			}
			for _, ins := range b.Instrs {
				if nx, ok := ins.(*ssa.Next); ok {
					if r, ok := nx.Iter.(*ssa.Range); ok {
						if _, isMap := r.X.Type().Underlying().(*types.Map); isMap {
							mapLoops[h] = nx
						}
					}
				}
			}
		}
	}
	return mapLoops
}

// derivedFromIteration: x is computed from the key or value of the current iteration of one of the loops
func derivedFromIteration(mapLoops map[int]*ssa.Next, x ssa.Value, d int) bool {
	if d > 8 {
		return false
	}
	switch y := x.(type) {
	case *ssa.Extract:
		if nx, ok := y.Tuple.(*ssa.Next); ok {
			for _, m := range mapLoops {
				if m == nx {
					return true
				}
			}
		}
		return derivedFromIteration(mapLoops, y.Tuple, d+1)
	case *ssa.UnOp:
		return derivedFromIteration(mapLoops, y.X, d+1)
	case *ssa.FieldAddr:
		return derivedFromIteration(mapLoops, y.X, d+1)
	case *ssa.Field:
		return derivedFromIteration(mapLoops, y.X, d+1)
	case *ssa.IndexAddr:
		return derivedFromIteration(mapLoops, y.X, d+1)
	case *ssa.Lookup:
		return derivedFromIteration(mapLoops, y.Index, d+1) || derivedFromIteration(mapLoops, y.X, d+1)
	case *ssa.Slice:
		return derivedFromIteration(mapLoops, y.X, d+1)
	case *ssa.Call:
		// a position obtained from the element: v.Pos(), posAt(n)
		for _, a := range y.Call.Args {
			if derivedFromIteration(mapLoops, a, d+1) {
				return true
			}
		}
		if y.Call.IsInvoke() {
			return derivedFromIteration(mapLoops, y.Call.Value, d+1)
		}
	case *ssa.MakeInterface:
		return derivedFromIteration(mapLoops, y.X, d+1)
	case *ssa.TypeAssert:
		return derivedFromIteration(mapLoops, y.X, d+1)
	}
	return false
}

// diagFields: the field arrays that hold diagnostics (slices of *Error / *ExprError)
func (e *Engine) diagFields() map[string]bool {
	if e.diagFieldSet != nil {
		return e.diagFieldSet
	}
	e.diagFieldSet = map[string]bool{}
	sc := e.pkg.Pkg.Scope()
	for _, n := range sc.Names() {
		tn, ok := sc.Lookup(n).(*types.TypeName)
		if !ok {
			continue
		}
		st, ok := tn.Type().Underlying().(*types.Struct)
		if !ok {
			continue
		}
		for i := 0; i < st.NumFields(); i++ {
			if sl, ok := st.Field(i).Type().Underlying().(*types.Slice); ok {
				if en := e.typeName(sl.Elem()); en == "*Error" || en == "*ExprError" {
					an, _, _ := e.fieldArr(tn.Type(), i)
					e.diagFieldSet[an] = true
				}
			}
		}
	}
	return e.diagFieldSet
}

// mapOrderReportCheck (C02): a call inside a loop over a map that (transitively) appends to a list of
// diagnostics emits them in map order. The later sort by position repairs that only when the position
// handed over belongs to the element of the iteration; diagnostics of several iterations at one and the
// same position keep the (random) order of the map.
func (vc *VC) mapOrderReportCheck(call ssa.CallInstruction, callee *ssa.Function) {
	mapLoops := vc.mapLoopsAround()
	if len(mapLoops) == 0 {
		return
	}
	m := vc.callModSet(call)
	if m == nil || m.All {
		return
	}
	reports := false
	for n := range m.Arr {
		if vc.e.diagFields()[n] {
			reports = true
		}
	}
	if !reports {
		return
	}
	for _, a := range call.Common().Args {
		if derivedFromIteration(mapLoops, a, 0) {
			return
		}
	}
	vc.check("map-order", call.Pos(), "", "false", []string{"C02"})
}

func (vc *VC) mapOrderCheck(call ssa.CallInstruction) {
	// loops over maps that contain the call: header -> its Next instruction
	mapLoops := map[int]*ssa.Next{}
	for h, set := range vc.loopBlks {
		if !set[vc.blk.Index] {
			continue
		}
		for _, b := range vc.fn.Blocks {
			if b.Index != h {
				continue
			}
			for _, ins := range b.Instrs {
				if nx, ok := ins.(*ssa.Next); ok {
					if r, ok := nx.Iter.(*ssa.Range); ok {
						if _, isMap := r.X.Type().Underlying().(*types.Map); isMap {
							mapLoops[h] = nx
						}
					}
				}
			}
		}
	}
	if len(mapLoops) == 0 {
		return
	}
	v := call.Value()
	if v == nil {
		return
	}
	// the slice appended to belongs to the key / value of the current iteration (rows[k], node.f for the
	// range value node): each iteration has its own target, the map order does not order its elements
	var fromIter func(x ssa.Value, d int) bool
	fromIter = func(x ssa.Value, d int) bool {
		if d > 8 {
			return false
		}
		switch y := x.(type) {
		case *ssa.Extract:
			if nx, ok := y.Tuple.(*ssa.Next); ok {
				for _, m := range mapLoops {
					if m == nx {
						return true
					}
				}
			}
			return fromIter(y.Tuple, d+1)
		case *ssa.UnOp:
			return fromIter(y.X, d+1)
		case *ssa.FieldAddr:
			return fromIter(y.X, d+1)
		case *ssa.Field:
			return fromIter(y.X, d+1)
		case *ssa.IndexAddr:
			return fromIter(y.X, d+1)
		case *ssa.Lookup:
			return fromIter(y.Index, d+1) || fromIter(y.X, d+1)
		case *ssa.Slice:
			return fromIter(y.X, d+1)
		}
		return false
	}
	if fromIter(call.Common().Args[0], 0) {
		return
	}
	// the family of values that denote (versions of) the slice being built
	fam := map[ssa.Value]bool{}
	fields := map[string]bool{}
	var work []ssa.Value
	add := func(x ssa.Value) {
		if x != nil && !fam[x] {
			fam[x] = true
			work = append(work, x)
		}
	}
	fieldKey := func(a ssa.Value) string {
		if fa, ok := a.(*ssa.FieldAddr); ok {
			if pt, ok := fa.X.Type().Underlying().(*types.Pointer); ok {
				if st, ok := pt.Elem().Underlying().(*types.Struct); ok {
					return vc.e.typeName(pt.Elem()) + "." + st.Field(fa.Field).Name()
				}
			}
		}
		return ""
	}
	add(v)
	add(call.Common().Args[0])
	for len(work) > 0 {
		x := work[len(work)-1]
		work = work[:len(work)-1]
		switch y := x.(type) {
		case *ssa.Phi:
			for _, e := range y.Edges {
				add(e)
			}
		case *ssa.Slice:
			add(y.X)
		case *ssa.Call:
			if bi, ok := y.Call.Value.(*ssa.Builtin); ok && bi.Name() == "append" {
				add(y.Call.Args[0])
			}
		case *ssa.UnOp:
			if y.Op == token.MUL {
				if k := fieldKey(y.X); k != "" {
					fields[k] = true
				}
			}
		}
		if refs := x.Referrers(); refs != nil {
			for _, r := range *refs {
				switch y := r.(type) {
				case *ssa.Phi:
					add(y)
				case *ssa.Slice:
					add(y)
				case *ssa.Call:
					if bi, ok := y.Call.Value.(*ssa.Builtin); ok && bi.Name() == "append" && y.Call.Args[0] == x {
						add(y)
					}
				case *ssa.Store:
					if y.Val == x {
						if k := fieldKey(y.Addr); k != "" {
							fields[k] = true
						}
					}
				}
			}
		}
	}
	carried := false
	if nx := mapLoops[vc.innermostLoop(vc.blk.Index)]; nx != nil {
		carried = true
	}
	for x := range fam {
		if ph, ok := x.(*ssa.Phi); ok && mapLoops[ph.Block().Index] != nil {
			carried = true
		}
	}
	if !carried {
		return
	}
	var strip func(a ssa.Value) ssa.Value
	strip = func(a ssa.Value) ssa.Value {
		switch y := a.(type) {
		case *ssa.MakeInterface:
			return strip(y.X)
		case *ssa.ChangeType:
			return strip(y.X)
		case *ssa.Convert:
			return strip(y.X)
		}
		return a
	}
	sorted := false
	for _, b := range vc.fn.Blocks {
		for _, ins := range b.Instrs {
			c, ok := ins.(ssa.CallInstruction)
			if !ok {
				continue
			}
			g := c.Common().StaticCallee()
			if g == nil || !(sortingFuncs[libName(g)] || sortingFuncs[g.Name()]) {
				continue
			}
			for _, a := range c.Common().Args {
				a = strip(a)
				if fam[a] {
					sorted = true
				}
				if u, ok := a.(*ssa.UnOp); ok && u.Op == token.MUL && fields[fieldKey(u.X)] {
					sorted = true
				}
			}
		}
	}
	cond := Term("false")
	if sorted {
		cond = "true"
	}
	vc.check("map-order", call.Pos(), "", cond, []string{"C02"})
}

// callbackCheck: the callee calls its function-valued parameter P under `callback P: ensures E`. The function
// handed over here must guarantee E: it is a function (or closure) of the package whose own contract states
// the same ensures clause (verified with that function), or the caller's own parameter under the same clause.
func (vc *VC) callbackCheck(call ssa.CallInstruction, callee *ssa.Function, con *Contract) {
	c := call.Common()
	for i, p := range callee.Params {
		cls := con.Callbacks[p.Name()]
		if len(cls) == 0 || i >= len(c.Args) {
			continue
		}
		a := c.Args[i]
		for {
			if ct, ok := a.(*ssa.ChangeType); ok {
				a = ct.X
				continue
			}
			break
		}
		var g *ssa.Function
		switch x := a.(type) {
		case *ssa.Function:
			g = x
		case *ssa.MakeClosure:
			g, _ = x.Fn.(*ssa.Function)
		}
		for _, cl := range cls {
			ok := false
			if g != nil {
				if gc := vc.e.cs.Funcs[vc.e.fname(g)]; gc != nil {
					for _, e := range gc.Ensures {
						if e.Text == cl.Text && !e.InTrustedBlock {
							ok = true
						}
					}
				}
			} else if pp, isParam := a.(*ssa.Parameter); isParam && vc.con != nil {
				for _, e := range vc.con.Callbacks[pp.Name()] {
					if e.Text == cl.Text {
						ok = true
					}
				}
			}
			cond := Term("false")
			if ok {
				cond = "true"
			}
			pr := cl.Props
			if len(pr) == 0 {
				pr = con.Props
			}
			vc.check("callback", call.Pos(), p.Name()+": "+cl.Text, cond, pr)
		}
	}
}
