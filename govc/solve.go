package main

import (
	"bufio"
	"bytes"
	"context"
	"fmt"
	"os"
	"os/exec"
	"path/filepath"
	"strings"
	"sync"
	"time"
)

type SolverCfg struct {
	Name string
	Cmd  []string
}

var solverZ3New = SolverCfg{"z3-5.1.0", []string{"z3-new", "-smt2"}}
var solverZ3Old = SolverCfg{"z3-4.8.12", []string{"/usr/bin/z3", "-smt2"}}
var solverCVC5 = SolverCfg{"cvc5-1.0.3", []string{"cvc5", "--lang=smt2", "--incremental"}}

// script builds the SMT-LIB text of a VC. If only >= 0, only that obligation is checked
// (earlier obligations are assumed), and a model is requested.
func (vc *VC) script(only int, timeoutMs int, solver string) string {
	return vc.scriptSel(only, nil, timeoutMs, solver)
}

// scriptSel: if sel != nil only obligations with sel(ob) are checked (others are assumed).
func (vc *VC) scriptSel(only int, sel func(*Obligation) bool, timeoutMs int, solver string) string {
	var b strings.Builder
	if strings.HasPrefix(solver, "cvc5") {
		b.WriteString("(set-option :produce-models true)\n(set-logic ALL)\n")
	} else {
		b.WriteString("(set-option :produce-models true)\n")
		fmt.Fprintf(&b, "(set-option :timeout %d)\n", timeoutMs)
		b.WriteString("(set-option :model.compact true)\n")
	}
	var body strings.Builder
	for _, d := range vc.decls {
		body.WriteString(d)
		body.WriteByte('\n')
	}
	for _, it := range vc.items {
		if it.probe {
			if only < 0 {
				body.WriteString("(echo \"ob -1\")\n(check-sat)\n")
			}
			continue
		}
		if it.ob == nil {
			body.WriteString("(assert ")
			body.WriteString(it.fact)
			body.WriteString(")\n")
			continue
		}
		ob := it.ob
		if ob.Cond == "true" {
			ob.Result, ob.Solver = "unsat", "trivial"
			continue
		}
		goal := Imp(ob.Guard, ob.Cond)
		if (only < 0 && (sel == nil || sel(ob))) || only == ob.Index {
			fmt.Fprintf(&body, "(echo \"ob %d\")\n(push 1)\n(assert (not %s))\n(check-sat)\n", ob.Index, goal)
			if only == ob.Index {
				body.WriteString("(get-model)\n")
			}
			body.WriteString("(pop 1)\n")
			if only == ob.Index {
				break
			}
		}
		if softKind(ob) || vc.noAssume[ob.Index] {
			// discipline obligations (string qualifiers) are not assumed afterwards: an unproved one
			// must not support later proofs, so it does not have to poison them either
			continue
		}
		fmt.Fprintf(&body, "(assert %s)\n", goal)
	}
	if only < 0 {
		// end probe: the facts and the assumed obligations of the whole function must not be contradictory
		if !strings.HasPrefix(solver, "cvc5") {
			body.WriteString("(set-option :timeout 150)\n")
		}
		body.WriteString("(echo \"ob -2\")\n(check-sat)\n")
	}
	bs := body.String()
	b.WriteString(prelude)
	for _, d := range vc.e.structDeclsFor(bs) {
		b.WriteString(d)
		b.WriteByte('\n')
	}
	b.WriteString(bs)
	return b.String()
}

// structDeclsFor returns the datatype declarations needed by a script body.
func (e *Engine) structDeclsFor(body string) []string {
	need := map[string]bool{}
	var mark func(s string)
	mark = func(s string) {
		if need[s] {
			return
		}
		need[s] = true
		for _, d := range e.structs[s].deps {
			mark(d)
		}
	}
	for s, si := range e.structs {
		if strings.Contains(body, s) || strings.Contains(body, si.ctor) {
			mark(s)
		}
	}
	// also accessors might be used without the sort name appearing; sort names appear in declarations anyway
	var out []string
	for _, d := range e.structDecls() {
		for s := range need {
			if strings.Contains(d, "(("+s+" 0))") {
				out = append(out, d)
				break
			}
		}
	}
	return out
}

type solveResult struct {
	results map[int]string
	models  map[int]string
	raw     string
	err     error
	dur     time.Duration
}

func runSolver(cfg SolverCfg, script string, total time.Duration, perCheckMs int) *solveResult {
	res := &solveResult{results: map[int]string{}, models: map[int]string{}}
	dir := workDir()
	f, err := os.CreateTemp(dir, "vc*.smt2")
	if err != nil {
		res.err = err
		return res
	}
	defer os.Remove(f.Name())
	f.WriteString(script)
	f.Close()
	ctx, cancel := context.WithTimeout(context.Background(), total)
	defer cancel()
	args := append([]string{}, cfg.Cmd[1:]...)
	if strings.HasPrefix(cfg.Name, "cvc5") {
		args = append(args, fmt.Sprintf("--tlimit-per=%d", perCheckMs))
	}
	args = append(args, f.Name())
	cmd := exec.CommandContext(ctx, cfg.Cmd[0], args...)
	var out bytes.Buffer
	cmd.Stdout = &out
	cmd.Stderr = &out
	start := time.Now()
	err = cmd.Run()
	res.dur = time.Since(start)
	res.raw = out.String()
	// parse
	sc := bufio.NewScanner(strings.NewReader(res.raw))
	sc.Buffer(make([]byte, 1<<20), 1<<26)
	cur := -2
	var model strings.Builder
	inModel := false
	for sc.Scan() {
		l := sc.Text()
		t := strings.TrimSpace(l)
		if strings.HasPrefix(t, "ob ") || strings.HasPrefix(t, "\"ob ") {
			if inModel && cur >= 0 {
				res.models[cur] = model.String()
			}
			inModel = false
			model.Reset()
			fmt.Sscanf(strings.Trim(t, "\""), "ob %d", &cur)
			continue
		}
		if cur >= -1 {
			if _, done := res.results[cur]; !done {
				switch t {
				case "sat", "unsat", "unknown", "timeout":
					res.results[cur] = t
					inModel = t == "sat"
					continue
				}
				if strings.HasPrefix(t, "(error") {
					res.results[cur] = "error: " + t
					continue
				}
			} else if inModel {
				model.WriteString(l)
				model.WriteByte('\n')
			}
		}
		if strings.HasPrefix(t, "(error") && res.err == nil && !strings.Contains(t, "model is not available") {
			res.err = fmt.Errorf("%s", t)
		}
	}
	if inModel && cur >= 0 {
		res.models[cur] = model.String()
	}
	if err != nil && ctx.Err() != nil {
		res.err = fmt.Errorf("solver time limit")
	}
	return res
}

var workDirOnce sync.Once
var workDirPath string

func workDir() string {
	workDirOnce.Do(func() {
		d := os.Getenv("GOVC_WORK")
		if d == "" {
			d = filepath.Join(os.TempDir(), fmt.Sprintf("govc-%d", os.Getpid()))
		}
		os.MkdirAll(d, 0o755)
		workDirPath = d
	})
	return workDirPath
}

// Solve discharges all obligations of a VC: one incremental run, then per-obligation retries on
// the other solvers for anything not unsat.
func (vc *VC) Solve(perCheckMs int, escalate bool) { vc.SolveSel(nil, perCheckMs, escalate) }

func (vc *VC) SolveSel(sel func(*Obligation) bool, perCheckMs int, escalate bool) {
	n := 0
	for _, ob := range vc.obls {
		if sel == nil || sel(ob) {
			n++
		}
	}
	if n == 0 {
		return
	}
	// verification conditions with many quantified facts are much slower in the solver's incremental
	// mode: discharge their obligations one by one (in parallel)
	nq := 0
	for _, it := range vc.items {
		if it.ob == nil && strings.Contains(it.fact, "(forall ") {
			nq++
		}
	}
	if nq > 12 {
		// cheap incremental pass first (most safety obligations need no quantifier reasoning), then
		// every obligation still open gets its own solver run
		quick := 250
		sc := vc.scriptSel(-1, sel, quick, solverZ3New.Name)
		r := runSolver(solverZ3New, sc, time.Duration(quick*n+5000)*time.Millisecond, quick)
		if r.results[-1] == "unsat" || r.results[-2] == "unsat" {
			vc.Vacuous = true
		}
		open := map[*Obligation]bool{}
		for _, ob := range vc.obls {
			if sel != nil && !sel(ob) {
				continue
			}
			if ob.Cond == "true" {
				ob.Result, ob.Solver = "unsat", "trivial"
				continue
			}
			if r.results[ob.Index] == "unsat" {
				ob.Result, ob.Solver, ob.TimeMs = "unsat", solverZ3New.Name, 1
				continue
			}
			open[ob] = true
		}
		if len(open) > 0 {
			vc.solveStandalone(func(ob *Obligation) bool { return open[ob] }, perCheckMs)
		}
		return
	}
	start := time.Now()
	sc := vc.scriptSel(-1, sel, perCheckMs, solverZ3New.Name)
	total := time.Duration(perCheckMs*n+5000) * time.Millisecond
	r := runSolver(solverZ3New, sc, total, perCheckMs)
	per := time.Since(start).Milliseconds() / int64(n)
	if r.results[-1] == "unsat" || r.results[-2] == "unsat" {
		vc.Vacuous = true
	}
	for _, ob := range vc.obls {
		if sel != nil && !sel(ob) {
			continue
		}
		if ob.Cond == "true" {
			ob.Result, ob.Solver = "unsat", "trivial"
			continue
		}
		ob.Result = r.results[ob.Index]
		if ob.Result == "" {
			ob.Result = "unknown"
			if r.err != nil {
				ob.Detail = r.err.Error()
			}
		}
		ob.Solver = solverZ3New.Name
		ob.TimeMs = per
	}
	if !escalate {
		return
	}
	for _, ob := range vc.obls {
		if ob.Result == "unsat" || (sel != nil && !sel(ob)) {
			continue
		}
		vc.retry(ob, perCheckMs)
	}
}

// retry runs a single obligation standalone on all solvers (non-incremental), keeps a model if sat.
func (vc *VC) retry(ob *Obligation, perCheckMs int) {
	type out struct {
		cfg SolverCfg
		r   *solveResult
	}
	cfgs := []SolverCfg{solverZ3New, solverCVC5, solverZ3Old}
	ch := make(chan out, len(cfgs))
	for _, cfg := range cfgs {
		go func(cfg SolverCfg) {
			sc := vc.script(ob.Index, perCheckMs, cfg.Name)
			ch <- out{cfg, runSolver(cfg, sc, time.Duration(perCheckMs+3000)*time.Millisecond, perCheckMs)}
		}(cfg)
	}
	best := ob.Result
	for range cfgs {
		o := <-ch
		res := o.r.results[ob.Index]
		switch res {
		case "unsat":
			ob.Result = "unsat"
			ob.Solver = o.cfg.Name
			ob.TimeMs = o.r.dur.Milliseconds()
			best = "unsat"
		case "sat":
			if best != "unsat" {
				best = "sat"
				ob.Result = "sat"
				ob.Solver = o.cfg.Name
				ob.Model = o.r.models[ob.Index]
				ob.TimeMs = o.r.dur.Milliseconds()
			}
		}
	}
}

var standaloneSem = make(chan struct{}, 16)

// solveStandalone discharges each selected obligation with its own solver run.
func (vc *VC) solveStandalone(sel func(*Obligation) bool, perCheckMs int) {
	var wg sync.WaitGroup
	for _, ob := range vc.obls {
		if sel != nil && !sel(ob) {
			continue
		}
		if ob.Cond == "true" {
			ob.Result, ob.Solver = "unsat", "trivial"
			continue
		}
		wg.Add(1)
		go func(ob *Obligation) {
			defer wg.Done()
			standaloneSem <- struct{}{}
			defer func() { <-standaloneSem }()
			sc := vc.script(ob.Index, perCheckMs, solverZ3New.Name)
			r := runSolver(solverZ3New, sc, time.Duration(perCheckMs+3000)*time.Millisecond, perCheckMs)
			ob.Result = r.results[ob.Index]
			if ob.Result == "" {
				ob.Result = "unknown"
			}
			ob.Solver = solverZ3New.Name
			ob.TimeMs = r.dur.Milliseconds()
			if ob.Result == "sat" {
				ob.Model = r.models[ob.Index]
			}
		}(ob)
	}
	wg.Wait()
}

// softKind: obligations of the string-qualifier disciplines (folded / nlfree).
func softKind(ob *Obligation) bool {
	switch ob.Kind {
	case "nlfree-msg", "nlfree-store", "folded-key", "folded-store", "folded-elems":
		return true
	case "forbid-call", "loop-complete", "loop-nobreak", "loop-noreturn", "format-const", "map-order", "shared-write", "immutable-store", "callback":
		// syntactic disciplines: a failing one has the condition `false`; assuming it afterwards would make
		// the rest of the function vacuously provable
		return true
	case "requires":
		i := strings.LastIndex(ob.Text, ": ")
		if i >= 0 {
			t := ob.Text[i+2:]
			return strings.HasPrefix(t, "nlfree(") || strings.HasPrefix(t, "folded(")
		}
	}
	return false
}
