package main

// The no-line-break discipline for formatted messages (property C16).

import (
	"go/constant"
	"go/types"
	"regexp"

	"golang.org/x/tools/go/ssa"
)

var verbRe = regexp.MustCompile(`%[-+# 0]*(\*|[0-9]+)?(\.(\*|[0-9]+))?[a-zA-Z%]`)

// varargValues returns the values stored into the variadic argument array of a call (nil if unknown).
func varargValues(v ssa.Value) ([]ssa.Value, bool) {
	if c, ok := v.(*ssa.Const); ok && c.Value == nil {
		return nil, true // no variadic arguments
	}
	sl, ok := v.(*ssa.Slice)
	if !ok {
		return nil, false
	}
	al, ok := sl.X.(*ssa.Alloc)
	if !ok {
		return nil, false
	}
	at, ok := deref(al.Type()).Underlying().(*types.Array)
	if !ok {
		return nil, false
	}
	out := make([]ssa.Value, at.Len())
	for _, r := range *al.Referrers() {
		ia, ok := r.(*ssa.IndexAddr)
		if !ok {
			continue
		}
		c, ok := ia.Index.(*ssa.Const)
		if !ok {
			return nil, false
		}
		idx := int(c.Int64())
		for _, r2 := range *ia.Referrers() {
			if st, ok := r2.(*ssa.Store); ok && st.Addr == ssa.Value(ia) && idx < len(out) {
				out[idx] = st.Val
			}
		}
	}
	for _, x := range out {
		if x == nil {
			return nil, false
		}
	}
	return out, true
}

// nlfreeOfFormat computes a term that implies "the formatted string contains no line break".
// ok=false when the format is not a constant or an argument cannot be classified.
func (vc *VC) nlfreeOfFormat(format ssa.Value, args ssa.Value) (Term, bool) {
	fc, ok := format.(*ssa.Const)
	if !ok || fc.Value == nil || fc.Value.Kind() != constant.String {
		return "", false
	}
	f := constant.StringVal(fc.Value)
	vals, ok := varargValues(args)
	if !ok {
		return "", false
	}
	// literal part
	lit := verbRe.ReplaceAllString(f, "")
	for i := 0; i < len(lit); i++ {
		if lit[i] == '\n' || lit[i] == '\r' {
			return "false", true
		}
	}
	conds := []Term{}
	ai := 0
	for _, m := range verbRe.FindAllString(f, -1) {
		verb := m[len(m)-1]
		if verb == '%' {
			continue
		}
		for _, ch := range m {
			if ch == '*' {
				ai++ // width/precision argument
			}
		}
		if ai >= len(vals) {
			return "", false
		}
		a := vals[ai]
		ai++
		inner := a
		if mi, ok := a.(*ssa.MakeInterface); ok {
			inner = mi.X
		}
		if ci, ok := a.(*ssa.ChangeInterface); ok {
			inner = ci.X // an interface value handed over as `any`
		}
		// an error value under %w / %v / %s renders as its Error() text
		if verb == 'w' || verb == 's' || verb == 'v' {
			if types.Identical(a.Type(), errorType) || (inner != a && types.Identical(inner.Type(), errorType)) {
				conds = append(conds, sx("nlfree", sx("errtext", vc.v(a))))
				continue
			}
			if a.Type() != nil && types.IsInterface(a.Type()) && types.Identical(inner.Type(), errorType) {
				conds = append(conds, sx("nlfree", sx("errtext", vc.v(inner))))
				continue
			}
		}
		// a concrete error obtained by a type assertion from an error value (`s, ok := err.(*json.SyntaxError)`)
		// renders as the text of that error value
		if verb == 's' || verb == 'v' {
			if src := assertedFrom(inner); src != nil && types.Identical(src.Type(), errorType) {
				conds = append(conds, sx("nlfree", sx("errtext", vc.v(src))))
				continue
			}
		}
		switch verb {
		case 'q', 'd', 'x', 'X', 'o', 'b', 't', 'p', 'U', 'e', 'E', 'f', 'F', 'g', 'G', 'T':
			continue // digits, quoted text, type names: never a raw line break
		case 'c':
			r := vc.v(inner)
			conds = append(conds, And(Ne(r, "10"), Ne(r, "13")))
		case 's', 'v':
			switch u := inner.Type().Underlying().(type) {
			case *types.Basic:
				if u.Info()&types.IsString != 0 {
					conds = append(conds, sx("nlfree", vc.v(inner)))
				}
				// numbers, bools print without line breaks
			case *types.Slice:
				// %v of a slice prints its elements: only strings can carry line breaks
				if b, ok := u.Elem().Underlying().(*types.Basic); ok && b.Info()&types.IsString == 0 {
					continue
				}
				return "", false
			default:
				// an error, Stringer or composite value: its rendering is not known here
				key := vc.e.typeName(inner.Type())
				if vc.e.cs.NlfreeString[key] {
					continue
				}
				// a Stringer of the package (not an error) whose String method - every implementation, for
				// an interface - is under the contract `ensures nlfree(result)`: fmt shows String()
				if vc.e.stringerNlfree(inner.Type()) || (inner != a && vc.e.stringerNlfree(a.Type())) {
					continue
				}
				return "", false
			}
		default:
			return "", false
		}
	}
	return And(conds...), true
}

var errorType = types.Universe.Lookup("error").Type()

// stringerNlfree: values of type t are rendered by fmt through a String method of this package, and every
// implementation that can be meant has a contract clause `ensures nlfree(result)`.
func (e *Engine) stringerNlfree(t types.Type) bool {
	if t == nil || types.Implements(t, errorType.Underlying().(*types.Interface)) {
		return false
	}
	has := func(fn *ssa.Function) bool {
		if fn == nil || fn.Pkg != e.pkg {
			return false
		}
		con := e.cs.Funcs[e.fname(fn)]
		if con == nil {
			return false
		}
		for _, c := range con.Ensures {
			if c.Text == "nlfree(result)" {
				return true
			}
		}
		return false
	}
	ms := e.prog.MethodSets.MethodSet(t)
	for i := 0; i < ms.Len(); i++ {
		sel := ms.At(i)
		if sel.Obj().Name() != "String" {
			continue
		}
		m, ok := sel.Obj().(*types.Func)
		if !ok {
			return false
		}
		sig := m.Type().(*types.Signature)
		if sig.Params().Len() != 0 || sig.Results().Len() != 1 {
			return false
		}
		if types.IsInterface(t) {
			impls := e.implementers(t, m)
			if len(impls) == 0 {
				return false
			}
			for _, g := range impls {
				if !has(g) {
					return false
				}
			}
			return true
		}
		return has(e.prog.MethodValue(sel))
	}
	return false
}

// assertedFrom: v is the result of a type assertion x.(T); returns x.
func assertedFrom(v ssa.Value) ssa.Value {
	switch y := v.(type) {
	case *ssa.TypeAssert:
		return y.X
	case *ssa.Extract:
		if ta, ok := y.Tuple.(*ssa.TypeAssert); ok && y.Index == 0 {
			return ta.X
		}
	}
	return nil
}
