package main

// Syntactic write sets ("modifies" inference) per function, closed under the call graph.

import (
	"go/types"
	"sort"
	"strings"

	"golang.org/x/tools/go/ssa"
)

const (
	modFresh = 1 // writes only to objects allocated during the call
	modOld   = 2 // may write pre-existing objects
)

type ModSet struct {
	All  bool
	Arr  map[string]int
	Why  string // reason for All
	done bool
	// Local: arrays written only through these local allocations (precise havoc)
	Local map[string][]ssa.Value
}

func newModSet() *ModSet { return &ModSet{Arr: map[string]int{}} }

func (m *ModSet) add(name string, lvl int) bool {
	if m.All {
		return false
	}
	if m.Arr[name] >= lvl {
		return false
	}
	m.Arr[name] = lvl
	return true
}

func (m *ModSet) union(o *ModSet, demoteFresh bool) bool {
	if m.All {
		return false
	}
	if o.All {
		m.All = true
		m.Why = o.Why
		return true
	}
	ch := false
	for k, v := range o.Arr {
		if m.add(k, v) {
			ch = true
		}
	}
	return ch
}

func (m *ModSet) names() []string {
	var out []string
	for k := range m.Arr {
		out = append(out, k)
	}
	sort.Strings(out)
	return out
}

// Heap array naming ---------------------------------------------------------------------------

func (e *Engine) fieldArr(structType types.Type, idx int) (name string, sort string, ft types.Type) {
	st := structType.Underlying().(*types.Struct)
	f := st.Field(idx)
	return "F:" + e.typeName(structType) + "." + f.Name(), "(Array Int " + e.sortOf(f.Type()) + ")", f.Type()
}

func (e *Engine) elemArr(elem types.Type) (string, string) {
	return "E:" + e.typeName(elem), "(Array Int (Array Int " + e.sortOf(elem) + "))"
}

func (e *Engine) cellArr(t types.Type) (string, string) {
	return "C:" + e.typeName(t), "(Array Int " + e.sortOf(t) + ")"
}

func (e *Engine) mapArrs(m *types.Map) (dom, val, dsort, vsort string) {
	k := e.typeName(m.Key()) + "," + e.typeName(m.Elem())
	ks := e.sortOf(m.Key())
	return "MD:" + k, "MV:" + k, "(Array Int (Array " + ks + " Bool))", "(Array Int (Array " + ks + " " + e.sortOf(m.Elem()) + "))"
}

func (e *Engine) globalArr(g *ssa.Global) (string, string) {
	n := g.Name()
	if g.Pkg != nil && g.Pkg != e.pkg {
		n = g.Pkg.Pkg.Name() + "." + n
	}
	return "GV:" + n, e.sortOf(deref(g.Type()))
}

func deref(t types.Type) types.Type {
	if p, ok := t.Underlying().(*types.Pointer); ok {
		return p.Elem()
	}
	return t
}

func isStruct(t types.Type) bool {
	_, ok := t.Underlying().(*types.Struct)
	return ok
}

// rootAlloc follows FieldAddr/IndexAddr chains to the base object.
func rootOf(v ssa.Value) ssa.Value {
	for {
		switch x := v.(type) {
		case *ssa.FieldAddr:
			v = x.X
		case *ssa.IndexAddr:
			if _, ok := x.X.Type().Underlying().(*types.Pointer); ok {
				v = x.X
			} else {
				return v
			}
		default:
			return v
		}
	}
}

// freshSlice: every definition the slice value can come from is a make in this function, nil, or an
// append to / a reslice of such a value: its backing array did not exist when the function was entered.
func freshSlice(v ssa.Value, seen map[ssa.Value]bool) bool {
	if seen[v] {
		return true
	}
	seen[v] = true
	switch x := v.(type) {
	case *ssa.MakeSlice:
		return true
	case *ssa.Const:
		return x.Value == nil
	case *ssa.Phi:
		for _, e := range x.Edges {
			if !freshSlice(e, seen) {
				return false
			}
		}
		return true
	case *ssa.Slice:
		if _, isSlice := x.X.Type().Underlying().(*types.Slice); isSlice {
			return freshSlice(x.X, seen)
		}
	case *ssa.Call:
		if bi, ok := x.Call.Value.(*ssa.Builtin); ok && bi.Name() == "append" && len(x.Call.Args) > 0 {
			return freshSlice(x.Call.Args[0], seen)
		}
	}
	return false
}

func isFreshBase(v ssa.Value) bool {
	switch x := rootOf(v).(type) {
	case *ssa.Alloc:
		return true
	case *ssa.IndexAddr:
		// element of a slice: fresh if the slice is a fresh make in this function
		switch x.X.(type) {
		case *ssa.MakeSlice:
			return true
		}
	}
	return false
}

// writeTargets returns the arrays written by a store through addr.
func (e *Engine) storeArrays(addr ssa.Value, valType types.Type, out func(name string)) {
	switch a := addr.(type) {
	case *ssa.FieldAddr:
		st := deref(a.X.Type())
		// struct element of slice accessed through IndexAddr: the whole element array is written
		if ia, ok := a.X.(*ssa.IndexAddr); ok {
			if _, isPtr := ia.X.Type().Underlying().(*types.Pointer); !isPtr {
				e.storeArrays(ia, deref(ia.Type()), out)
				return
			}
		}
		if fa, ok := a.X.(*ssa.FieldAddr); ok {
			_ = fa
		}
		ft := st.Underlying().(*types.Struct).Field(a.Field).Type()
		if isStruct(ft) {
			e.structArrays(ft, out)
			return
		}
		n, _, _ := e.fieldArr(st, a.Field)
		out(n)
	case *ssa.IndexAddr:
		var et types.Type
		switch t := a.X.Type().Underlying().(type) {
		case *types.Slice:
			et = t.Elem()
		case *types.Pointer:
			et = t.Elem().Underlying().(*types.Array).Elem()
		default:
			return
		}
		n, _ := e.elemArr(et)
		out(n)
	case *ssa.Global:
		n, _ := e.globalArr(a)
		out(n)
	default:
		t := deref(addr.Type())
		if isStruct(t) {
			e.structArrays(t, out)
			return
		}
		n, _ := e.cellArr(t)
		out(n)
	}
}

func (e *Engine) structArrays(t types.Type, out func(string)) {
	st := t.Underlying().(*types.Struct)
	for i := 0; i < st.NumFields(); i++ {
		ft := st.Field(i).Type()
		if isStruct(ft) {
			e.structArrays(ft, out)
			continue
		}
		n, _, _ := e.fieldArr(t, i)
		out(n)
	}
}

func (e *Engine) computeModSets() {
	e.mods = map[*ssa.Function]*ModSet{}
	type callEdge struct {
		callee *ssa.Function
	}
	calls := map[*ssa.Function][]*ssa.Function{}
	for _, f := range e.order {
		m := newModSet()
		e.mods[f] = m
		for _, b := range f.Blocks {
			for _, ins := range b.Instrs {
				switch x := ins.(type) {
				case *ssa.Store:
					lvl := modOld
					if isFreshBase(x.Addr) {
						lvl = modFresh
					}
					if al, ok := rootOf(x.Addr).(*ssa.Alloc); ok && !al.Heap {
						continue // a stack local of this function: invisible to callers
					}
					e.storeArrays(x.Addr, x.Val.Type(), func(n string) { m.add(n, lvl) })
				case *ssa.MapUpdate:
					mt := x.Map.Type().Underlying().(*types.Map)
					d, v, _, _ := e.mapArrs(mt)
					lvl := modOld
					if _, ok := x.Map.(*ssa.MakeMap); ok {
						lvl = modFresh
					}
					m.add(d, lvl)
					m.add(v, lvl)
				case *ssa.Alloc, *ssa.MakeSlice, *ssa.MakeMap:
					// allocation zero-initialises: a fresh write
					switch y := x.(type) {
					case *ssa.Alloc:
						if !y.Heap {
							continue
						}
						t := deref(y.Type())
						if isStruct(t) {
							e.structArrays(t, func(n string) { m.add(n, modFresh) })
						} else if at, ok := t.Underlying().(*types.Array); ok {
							n, _ := e.elemArr(at.Elem())
							m.add(n, modFresh)
						} else {
							n, _ := e.cellArr(t)
							m.add(n, modFresh)
						}
					case *ssa.MakeSlice:
						n, _ := e.elemArr(y.Type().Underlying().(*types.Slice).Elem())
						m.add(n, modFresh)
					case *ssa.MakeMap:
						d, v, _, _ := e.mapArrs(y.Type().Underlying().(*types.Map))
						m.add(d, modFresh)
						m.add(v, modFresh)
					}
				case ssa.CallInstruction:
					e.callMods(f, x, m, func(g *ssa.Function) { calls[f] = append(calls[f], g) })
				}
			}
		}
	}
	// ghost effects of definers
	for name, c := range e.cs.Funcs {
		if f, ok := e.funcs[name]; ok {
			for _, ef := range c.Effects {
				e.mods[f].add("GH:"+ef.Ghost, modOld)
			}
		}
	}
	// fixpoint
	for changed := true; changed; {
		changed = false
		for _, f := range e.order {
			m := e.mods[f]
			for _, g := range calls[f] {
				if gm, ok := e.mods[g]; ok {
					if m.union(gm, false) {
						changed = true
					}
				} else if g.Pkg == e.pkg || g.Pkg == nil {
					// a synthetic function of the package (wrapper of a promoted method, bound method):
					// its effect is the effect of the functions it forwards to
					fw := forwardedCallees(g)
					if len(fw) == 0 {
						if !m.All {
							m.All = true
							m.Why = "call of synthetic function " + g.String()
							changed = true
						}
						continue
					}
					for _, h := range fw {
						if hm, ok := e.mods[h]; ok {
							if m.union(hm, false) {
								changed = true
							}
						} else if !m.All {
							m.All = true
							m.Why = "call of synthetic function " + g.String()
							changed = true
						}
					}
				}
			}
		}
	}
	// functions declared (and verified) to write a ghost set only at fresh objects
	for name, c := range e.cs.Funcs {
		if f, ok := e.funcs[name]; ok {
			for _, g := range c.FreshWrites {
				if _, has := e.mods[f].Arr["GH:"+g]; has {
					e.mods[f].Arr["GH:"+g] = modFresh
				}
			}
		}
	}
	// the declaration must propagate: a caller whose only writers are fresh-writers is itself fresh unless it calls a definer
	// (kept simple: callers need their own fresh_writes declaration)
	// explicit modifies clauses override
	for name, c := range e.cs.Funcs {
		if f, ok := e.funcs[name]; ok && c.HasMod && c.Trusted != "" {
			m := newModSet()
			for _, n := range c.Modifies {
				m.add(n, modOld)
			}
			e.mods[f] = m
		}
	}
}

// implementers returns in-package concrete methods implementing an interface method.
func (e *Engine) implementers(recv types.Type, method *types.Func) []*ssa.Function {
	iface, ok := recv.Underlying().(*types.Interface)
	if !ok {
		return nil
	}
	var out []*ssa.Function
	for _, mem := range e.pkg.Members {
		tn, ok := mem.(*ssa.Type)
		if !ok {
			continue
		}
		for _, t := range []types.Type{tn.Type(), types.NewPointer(tn.Type())} {
			if types.IsInterface(t) {
				continue
			}
			if !types.Implements(t, iface) {
				continue
			}
			sel := e.prog.MethodSets.MethodSet(t).Lookup(method.Pkg(), method.Name())
			if sel == nil {
				continue
			}
			if fn := e.prog.MethodValue(sel); fn != nil {
				out = append(out, fn)
			}
			break
		}
	}
	return out
}

func (e *Engine) callMods(f *ssa.Function, call ssa.CallInstruction, m *ModSet, addCall func(*ssa.Function)) {
	c := call.Common()
	e.pendingCalls = addCall
	defer func() { e.pendingCalls = nil }()
	if c.IsInvoke() {
		impls := e.implementers(c.Value.Type(), c.Method)
		inPkg := false
		if nt, ok := c.Value.Type().(*types.Named); ok && nt.Obj().Pkg() == e.tpkg {
			inPkg = true
		}
		if inPkg {
			for _, g := range impls {
				addCall(g)
			}
			return
		}
		// foreign interface (error, io.Writer, fmt.Stringer ...): assume no effect on package heap,
		// except in-package implementers that may be reached
		name := c.Method.Name()
		if name == "Error" || name == "String" {
			return
		}
		for _, g := range impls {
			addCall(g)
		}
		return
	}
	switch callee := c.Value.(type) {
	case *ssa.Builtin:
		switch callee.Name() {
		case "append":
			if len(c.Args) > 0 {
				if st, ok := c.Args[0].Type().Underlying().(*types.Slice); ok {
					n, _ := e.elemArr(st.Elem())
					m.add(n, modFresh)
				}
			}
		case "copy":
			if st, ok := c.Args[0].Type().Underlying().(*types.Slice); ok {
				n, _ := e.elemArr(st.Elem())
				lvl := modOld
				if freshSlice(c.Args[0], map[ssa.Value]bool{}) {
					lvl = modFresh // copying into a slice made by this very function
				}
				m.add(n, lvl)
			}
		case "delete":
			mt := c.Args[0].Type().Underlying().(*types.Map)
			d, v, _, _ := e.mapArrs(mt)
			m.add(d, modOld)
			m.add(v, modOld)
		}
	case *ssa.Function:
		if callee.Pkg == e.pkg && callee.Blocks != nil {
			addCall(callee)
			return
		}
		e.libMods(callee, c, m)
	case *ssa.MakeClosure:
		if fn, ok := callee.Fn.(*ssa.Function); ok {
			addCall(fn)
		}
	default:
		// dynamic call of a function value: any function of the package with that signature whose
		// address is taken (closed world); if none is known the call may do anything
		sig, _ := c.Value.Type().Underlying().(*types.Signature)
		cands := e.funcValues(sig)
		if len(cands) == 0 {
			// a callback installed by the API user in a struct field (e.g. Linter.onRulesCreated):
			// assumed to touch only what it can reach through its arguments
			if u, ok := c.Value.(*ssa.UnOp); ok {
				if _, isField := u.X.(*ssa.FieldAddr); isField {
					seen := map[string]bool{}
					for _, a := range c.Args {
						e.typeReach(a.Type(), seen, func(n string) { m.add(n, modOld) })
					}
					return
				}
			}
			m.All = true
			m.Why = "dynamic call in " + e.fname(f)
			return
		}
		for _, g := range cands {
			addCall(g)
		}
	}
}

// funcValues: package functions/closures used as values whose signature is identical to sig.
func (e *Engine) funcValues(sig *types.Signature) []*ssa.Function {
	if sig == nil {
		return nil
	}
	if e.fnValues == nil {
		e.fnValues = map[*ssa.Function]bool{}
		for _, f := range e.order {
			for _, b := range f.Blocks {
				for _, ins := range b.Instrs {
					if mc, ok := ins.(*ssa.MakeClosure); ok {
						if g, ok := mc.Fn.(*ssa.Function); ok {
							e.fnValues[g] = true
						}
					}
					var ops []*ssa.Value
					for _, op := range ins.Operands(ops) {
						if g, ok := (*op).(*ssa.Function); ok && g.Pkg == e.pkg {
							if call, isCall := ins.(ssa.CallInstruction); isCall && call.Common().Value == ssa.Value(g) {
								// direct callee position: not a value use, unless also passed as argument
								used := false
								for _, a := range call.Common().Args {
									if a == ssa.Value(g) {
										used = true
									}
								}
								if !used {
									continue
								}
							}
							e.fnValues[g] = true
						}
					}
				}
			}
		}
	}
	var out []*ssa.Function
	for _, g := range e.order {
		if e.fnValues[g] && types.Identical(g.Signature, sig) {
			out = append(out, g)
		}
	}
	// closures are not in e.order if nested; scan all known functions
	for g := range e.fnValues {
		found := false
		for _, x := range out {
			if x == g {
				found = true
			}
		}
		if !found && sameParamsResults(g.Signature, sig) {
			out = append(out, g)
		}
	}
	sort.Slice(out, func(i, j int) bool { return e.fname(out[i]) < e.fname(out[j]) })
	return out
}

func sameParamsResults(a, b *types.Signature) bool {
	return types.Identical(types.NewSignatureType(nil, nil, nil, a.Params(), a.Results(), a.Variadic()),
		types.NewSignatureType(nil, nil, nil, b.Params(), b.Results(), b.Variadic()))
}

// libMods: effect of library functions on the package heap. Default: none, except through
// arguments that are pointers/slices which the function is documented to write.
func (e *Engine) libMods(callee *ssa.Function, c *ssa.CallCommon, m *ModSet) {
	name := libName(callee)
	switch {
	case name == "(*scanner.Scanner).Next" || name == "(*scanner.Scanner).Init":
		m.add("SC:pos", modOld)
		m.add("SC:src", modOld)
	case strings.HasPrefix(name, "(*strings.Builder).") || strings.HasPrefix(name, "(*bytes.Buffer)."):
		switch name[strings.LastIndex(name, ".")+1:] {
		case "String", "Len", "Cap", "Grow":
		default:
			lvl := modOld
			if al, ok := rootOf(c.Args[0]).(*ssa.Alloc); ok && al.Parent() != nil {
				lvl = modFresh // a builder declared in this very function
			}
			m.add("GB:hasnl", lvl)
			m.add("GB:len", lvl)
		}
	case name == "sort.Strings" || name == "sort.Ints":
		n, _ := e.elemArr(c.Args[0].Type().Underlying().(*types.Slice).Elem())
		lvl := modOld
		if freshSlice(c.Args[0], map[ssa.Value]bool{}) {
			lvl = modFresh // sorting a slice made (and only appended to) by this very function
		}
		m.add(n, lvl)
	case name == "sort.Sort" || name == "sort.Stable":
		// sorts the named slice in place through its Swap method
		arg := c.Args[0]
		if mi, ok := arg.(*ssa.MakeInterface); ok {
			arg = mi.X
		}
		if st, ok := arg.Type().Underlying().(*types.Slice); ok {
			n, _ := e.elemArr(st.Elem())
			m.add(n, modOld)
			return
		}
		m.All = true
		m.Why = name
	case name == "sort.Slice" || name == "sort.SliceStable":
		m.All = true
		m.Why = name
	case strings.HasSuffix(name, ".Decode") || strings.HasSuffix(name, ".Unmarshal") || strings.HasSuffix(name, "json.Unmarshal"):
		// decoding writes what is reachable from the target argument
		target := c.Args[len(c.Args)-1]
		if mi, ok := target.(*ssa.MakeInterface); ok {
			target = mi.X
		}
		if pt, ok := target.Type().Underlying().(*types.Pointer); ok {
			if it, ok := pt.Elem().Underlying().(*types.Interface); ok && it.NumMethods() == 0 {
				// *interface{}: the cell itself plus freshly allocated generic values
				n, _ := e.cellArr(pt.Elem())
				m.add(n, modOld)
				en, _ := e.elemArr(pt.Elem())
				m.add(en, modFresh)
				return
			}
		}
		if pt, ok := target.Type().Underlying().(*types.Pointer); ok {
			// decoding into a value of a known type writes only what is reachable from that type
			seen := map[string]bool{}
			// (the pointer type itself: for a pointer to a slice / map / basic variable the variable's cell is written)
			e.typeReach(target.Type(), seen, func(n string) { m.add(n, modOld) })
			_ = pt
			return
		}
		m.All = true
		m.Why = name
	case strings.Contains(name, "errgroup") || strings.Contains(name, "sync.") || strings.Contains(name, "filepath.Walk") || strings.Contains(name, "template"):
		// may run package closures / callbacks: the effect is the closure's (sequential abstraction)
		for _, a := range c.Args {
			if _, ok := a.Type().Underlying().(*types.Signature); ok {
				if mc, ok := a.(*ssa.MakeClosure); ok {
					if fn, ok := mc.Fn.(*ssa.Function); ok {
						if e.pendingCalls != nil {
							e.pendingCalls(fn)
							continue
						}
					}
				}
				m.All = true
				m.Why = name
			}
		}
	default:
		for _, a := range c.Args {
			if _, ok := a.Type().Underlying().(*types.Signature); ok {
				m.All = true
				m.Why = name + " (callback)"
			}
		}
	}
}

// typeReach enumerates the heap arrays that hold values reachable from a value of type t.
func (e *Engine) typeReach(t types.Type, seen map[string]bool, out func(string)) {
	k := e.typeName(t)
	if seen[k] {
		return
	}
	seen[k] = true
	switch u := t.Underlying().(type) {
	case *types.Pointer:
		el := u.Elem()
		if isStruct(el) {
			e.typeReach(el, seen, out)
		} else {
			n, _ := e.cellArr(el)
			out(n)
			e.typeReach(el, seen, out)
		}
	case *types.Struct:
		for i := 0; i < u.NumFields(); i++ {
			ft := u.Field(i).Type()
			if !isStruct(ft) {
				n, _, _ := e.fieldArr(t, i)
				out(n)
			}
			e.typeReach(ft, seen, out)
		}
	case *types.Slice:
		n, _ := e.elemArr(u.Elem())
		out(n)
		e.typeReach(u.Elem(), seen, out)
	case *types.Array:
		n, _ := e.elemArr(u.Elem())
		out(n)
		e.typeReach(u.Elem(), seen, out)
	case *types.Map:
		d, v, _, _ := e.mapArrs(u)
		out(d)
		out(v)
		e.typeReach(u.Key(), seen, out)
		e.typeReach(u.Elem(), seen, out)
	case *types.Interface:
		if u.NumMethods() == 0 {
			n, _ := e.elemArr(t)
			out(n)
		}
	}
}

// forwardedCallees: the static callees of a synthetic wrapper.
func forwardedCallees(g *ssa.Function) []*ssa.Function {
	var out []*ssa.Function
	for _, b := range g.Blocks {
		for _, ins := range b.Instrs {
			if c, ok := ins.(ssa.CallInstruction); ok {
				if h := c.Common().StaticCallee(); h != nil {
					out = append(out, h)
				} else {
					return nil
				}
			}
		}
	}
	return out
}
