package main

import (
	"flag"
	"fmt"
	"go/ast"
	"go/types"
	"os"
	"os/exec"
	"strconv"

	"golang.org/x/tools/go/ssa"
	"regexp"
	"runtime"
	"sort"
	"strings"
	"sync"
	"time"
)

func main() {
	if len(os.Args) < 2 {
		fmt.Fprintln(os.Stderr, "usage: govc <sweep|dump|check> ...")
		os.Exit(2)
	}
	switch os.Args[1] {
	case "sweep":
		cmdSweep(os.Args[2:])
	case "dump":
		cmdDump(os.Args[2:])
	case "cex":
		cmdCex(os.Args[2:])
	case "vacuity":
		cmdVacuity(os.Args[2:])
	case "check":
		cmdCheck(os.Args[2:])
	case "infer":
		cmdInfer(os.Args[2:])
	case "replay":
		cmdReplay(os.Args[2:])
	case "loops":
		cmdLoops(os.Args[2:])
	case "mods":
		cmdMods(os.Args[2:])
	case "bless":
		cmdBless(os.Args[2:])
	case "bounded":
		cmdBounded(os.Args[2:])
	case "gencov":
		cmdGenCov(os.Args[2:])
	default:
		fmt.Fprintln(os.Stderr, "unknown command", os.Args[1])
		os.Exit(2)
	}
}

func cmdDump(args []string) {
	fs := flag.NewFlagSet("dump", flag.ExitOnError)
	repo := fs.String("repo", "/repo", "repository")
	fn := fs.String("fn", "", "function name")
	only := fs.Int("ob", -1, "only this obligation")
	ssaOut := fs.Bool("ssa", false, "print SSA")
	fs.Parse(args)
	e, err := loadEngine(*repo)
	if err != nil {
		fmt.Fprintln(os.Stderr, err)
		os.Exit(2)
	}
	f := e.funcs[*fn]
	if f == nil {
		fmt.Fprintln(os.Stderr, "no such function; candidates:")
		for _, g := range e.order {
			if strings.Contains(e.fname(g), *fn) {
				fmt.Fprintln(os.Stderr, "  ", e.fname(g))
			}
		}
		os.Exit(2)
	}
	if *ssaOut {
		f.WriteTo(os.Stdout)
		return
	}
	vc := newVC(e, f, nil)
	vc.Generate()
	fmt.Print(vc.script(*only, 10000, "z3"))
	for _, ob := range vc.obls {
		fmt.Printf("; ob %d %s  [%s]\n", ob.Index, ob.Name, ob.Pos)
	}
	for _, u := range vc.unsupported {
		fmt.Printf("; unsupported: %s\n", u)
	}
}

func cmdSweep(args []string) {
	fs := flag.NewFlagSet("sweep", flag.ExitOnError)
	repo := fs.String("repo", "/repo", "repository")
	fnre := fs.String("fn", "", "function regexp")
	tmo := fs.Int("t", 2000, "per-check timeout ms")
	esc := fs.Bool("escalate", false, "retry failures on all solvers")
	verbose := fs.Bool("v", false, "print failing obligations")
	fs.Parse(args)
	start := time.Now()
	e, err := loadEngine(*repo)
	if err != nil {
		fmt.Fprintln(os.Stderr, err)
		os.Exit(2)
	}
	fmt.Printf("loaded in %.1fs, %d functions\n", time.Since(start).Seconds(), len(e.order))
	var re *regexp.Regexp
	if *fnre != "" {
		re = regexp.MustCompile(*fnre)
	}
	var vcs []*VC
	for _, f := range e.order {
		if re != nil && !re.MatchString(e.fname(f)) {
			continue
		}
		vc := newVC(e, f, nil)
		func() {
			defer func() {
				if r := recover(); r != nil {
					vc.unsupported = append(vc.unsupported, fmt.Sprintf("translator panic: %v", r))
					vc.obls = nil
					vc.items = nil
					if *verbose {
						buf := make([]byte, 4096)
						n := runtime.Stack(buf, false)
						fmt.Printf("PANIC in %s: %v\n%s\n", e.fname(f), r, buf[:n])
					}
				}
			}()
			vc.Generate()
		}()
		vcs = append(vcs, vc)
	}
	fmt.Printf("translated in %.1fs\n", time.Since(start).Seconds())
	solveAll(vcs, *tmo, *esc)
	tot, ok := 0, 0
	byKind := map[string][2]int{}
	unsupp := map[string]int{}
	for _, vc := range vcs {
		for _, u := range vc.unsupported {
			unsupp[u]++
		}
		for _, n := range vc.notes {
			if strings.Contains(n, "not bound") {
				fmt.Printf("NOTE %s: %s\n", e.fname(vc.fn), n)
			}
		}
		for _, ob := range vc.obls {
			tot++
			k := byKind[ob.Kind]
			k[0]++
			if ob.Result == "unsat" {
				ok++
				k[1]++
			} else if *verbose {
				fmt.Printf("FAIL %-8s %s [%s] %s\n", ob.Result, ob.Name, ob.Pos, ob.Detail)
			}
			byKind[ob.Kind] = k
		}
	}
	fmt.Printf("obligations %d discharged %d in %.1fs\n", tot, ok, time.Since(start).Seconds())
	var kinds []string
	for k := range byKind {
		kinds = append(kinds, k)
	}
	sort.Strings(kinds)
	for _, k := range kinds {
		fmt.Printf("  %-16s %5d / %5d\n", k, byKind[k][1], byKind[k][0])
	}
	var us []string
	for u := range unsupp {
		us = append(us, u)
	}
	sort.Slice(us, func(i, j int) bool { return unsupp[us[i]] > unsupp[us[j]] })
	for i, u := range us {
		if i > 40 {
			break
		}
		fmt.Printf("  unsupported x%d: %s\n", unsupp[u], u)
	}
}

func solveAllSel(vcs []*VC, sel func(*Obligation) bool, tmo int) {
	var wg sync.WaitGroup
	sem := make(chan struct{}, runtime.NumCPU())
	for _, vc := range vcs {
		if len(vc.obls) == 0 {
			continue
		}
		wg.Add(1)
		sem <- struct{}{}
		go func(vc *VC) {
			defer wg.Done()
			defer func() { <-sem }()
			vc.SolveSel(sel, tmo, false)
		}(vc)
	}
	wg.Wait()
}

func solveAll(vcs []*VC, tmo int, esc bool) {
	var wg sync.WaitGroup
	sem := make(chan struct{}, runtime.NumCPU())
	for _, vc := range vcs {
		if len(vc.obls) == 0 {
			continue
		}
		wg.Add(1)
		sem <- struct{}{}
		go func(vc *VC) {
			defer wg.Done()
			defer func() { <-sem }()
			vc.Solve(tmo, esc)
		}(vc)
	}
	wg.Wait()
}


// cmdLoops lists the loop keys (as used in `//@ loop "<key>"`) of the functions matching a regexp.
func cmdLoops(args []string) {
	fs := flag.NewFlagSet("loops", flag.ExitOnError)
	repo := fs.String("repo", "/repo", "repository")
	fnre := fs.String("fn", "", "function regexp")
	fs.Parse(args)
	e, err := loadEngine(*repo)
	if err != nil {
		fmt.Fprintln(os.Stderr, err)
		os.Exit(2)
	}
	re := regexp.MustCompile(*fnre)
	for _, f := range e.order {
		if !re.MatchString(e.fname(f)) || f.Syntax() == nil {
			continue
		}
		cnt := map[string]int{}
		first := true
		ast.Inspect(f.Syntax(), func(n ast.Node) bool {
			t := ""
			switch l := n.(type) {
			case *ast.ForStmt:
				t = "for"
				if l.Cond != nil {
					t = types.ExprString(l.Cond)
				}
			case *ast.RangeStmt:
				t = "range " + types.ExprString(l.X)
			case *ast.FuncLit:
				if n != f.Syntax() {
					return false
				}
			}
			if t != "" {
				if first {
					fmt.Printf("//@ func %s\n", e.fname(f))
					first = false
				}
				cnt[t]++
				if cnt[t] > 1 {
					fmt.Printf("//@   loop %q #%d:\n", t, cnt[t])
				} else {
					fmt.Printf("//@   loop %q:\n", t)
				}
			}
			return true
		})
	}
}

func cmdMods(args []string) {
	fs := flag.NewFlagSet("mods", flag.ExitOnError)
	repo := fs.String("repo", "/repo", "repository")
	fn := fs.String("fn", "", "function name")
	fs.Parse(args)
	e, err := loadEngine(*repo)
	if err != nil {
		fmt.Fprintln(os.Stderr, err)
		os.Exit(2)
	}
	if *fn == "" {
		debugAllRoots(e)
		return
	}
	f := e.funcs[*fn]
	if f == nil {
		fmt.Fprintln(os.Stderr, "no such function")
		os.Exit(2)
	}
	m := e.mods[f]
	if m.All {
		fmt.Println("ALL because", m.Why)
		return
	}
	for _, n := range m.names() {
		fmt.Printf("%-50s %d\n", n, m.Arr[n])
	}
}

func init() {
	debugAllRoots = func(e *Engine) {
		for _, f := range e.order {
			m := newModSet()
			for _, b := range f.Blocks {
				for _, ins := range b.Instrs {
					if c, ok := ins.(ssa.CallInstruction); ok {
						e.callMods(f, c, m, func(*ssa.Function) {})
					}
				}
			}
			if m.All {
				fmt.Printf("direct ALL: %-50s %s\n", e.fname(f), m.Why)
			}
		}
	}
}

var debugAllRoots func(e *Engine)

func cmdBounded(args []string) {
	fs := flag.NewFlagSet("bounded", flag.ExitOnError)
	repo := fs.String("repo", "/repo", "repository")
	prop := fs.String("prop", "", "property")
	tier := fs.String("tier", "quick", "tier")
	fs.Parse(args)
	r := runBounded(*repo, verifDir(), *prop, *tier, 1)
	if r == nil {
		fmt.Println("no harness")
		return
	}
	fmt.Printf("bound=%s cases=%d distinct=%d failures=%d wall=%.1fs err=%s\n", r.Bound, r.Cases, r.Distinct, len(r.Failures), r.WallS, r.Error)
	for _, f := range r.Failures {
		fmt.Printf("  failure: %v\n", f)
	}
}

// cmdCex: try to build and replay a counterexample for one obligation (debugging aid).
func cmdCex(args []string) {
	fs := flag.NewFlagSet("cex", flag.ExitOnError)
	repo := fs.String("repo", "/repo", "repository")
	fn := fs.String("fn", "", "function name")
	only := fs.Int("ob", -1, "obligation index")
	fs.Parse(args)
	e, err := loadEngine(*repo)
	if err != nil {
		fmt.Fprintln(os.Stderr, err)
		os.Exit(2)
	}
	f := e.funcs[*fn]
	if f == nil {
		fmt.Fprintln(os.Stderr, "no such function")
		os.Exit(2)
	}
	var target *VC
	for _, vc := range generateAll(e) {
		if vc.fn == f {
			target = vc
		}
	}
	for _, ob := range target.obls {
		if ob.Index != *only {
			continue
		}
		for attempt := 0; attempt < 3; attempt++ {
			c := target.tryCounterexample(ob, attempt)
			if c == nil {
				fmt.Println("function cannot be called from a test")
				return
			}
			fmt.Printf("--- attempt %d: confirmed=%v note=%s\n%s\n%s\n", attempt, c.Confirmed, c.Note, c.TestSrc, c.Output)
			if c.Confirmed {
				return
			}
		}
	}
}

// cmdVacuity lists the basic blocks whose reachability is refuted by the facts of the VC alone (no
// obligation assumed): dead code under the contracts, or - the reason for this command - facts that
// contradict each other, which would make every obligation of the block vacuously provable.
func cmdVacuity(args []string) {
	fs := flag.NewFlagSet("vacuity", flag.ExitOnError)
	repo := fs.String("repo", "/repo", "repository")
	fnre := fs.String("fn", "", "function regexp")
	explain := fs.Int("explain", -1, "print an unsat core for this block (use with -fn)")
	fs.Parse(args)
	e, err := loadEngine(*repo)
	if err != nil {
		fmt.Fprintln(os.Stderr, err)
		os.Exit(2)
	}
	var re *regexp.Regexp
	if *fnre != "" {
		re = regexp.MustCompile(*fnre)
	}
	vcs := generateAll(e)
	if *explain >= 0 {
		for _, vc := range vcs {
			if re == nil || !re.MatchString(e.fname(vc.fn)) {
				continue
			}
			var b, body strings.Builder
			b.WriteString("(set-option :produce-unsat-cores true)\n(set-option :timeout 20000)\n")
			for _, d := range vc.decls {
				body.WriteString(d + "\n")
			}
			var facts []string
			for _, it := range vc.items {
				if it.probe || it.ob != nil {
					continue
				}
				fmt.Fprintf(&body, "(assert (! %s :named f%d))\n", it.fact, len(facts))
				facts = append(facts, it.fact)
			}
			fmt.Fprintf(&body, "(assert %s)\n(check-sat)\n(get-unsat-core)\n", vc.reach[*explain])
			bs := body.String()
			b.WriteString(prelude)
			for _, d := range e.structDeclsFor(bs) {
				b.WriteString(d + "\n")
			}
			b.WriteString(bs)
			cmd := exec.Command("z3-new", "-in", "-smt2")
			cmd.Stdin = strings.NewReader(b.String())
			o, _ := cmd.Output()
			fmt.Println(string(o))
			for _, m := range regexp.MustCompile(`f(\d+)`).FindAllStringSubmatch(string(o), -1) {
				k, _ := strconv.Atoi(m[1])
				if k < len(facts) {
					f := facts[k]
					if len(f) > 400 {
						f = f[:400] + "..."
					}
					fmt.Printf("f%d: %s\n", k, f)
				}
			}
		}
		return
	}
	type res struct {
		fn   string
		dead []string
	}
	out := make([]res, len(vcs))
	parallelDo(len(vcs), func(i int) {
		vc := vcs[i]
		name := e.fname(vc.fn)
		if re != nil && !re.MatchString(name) {
			return
		}
		var b strings.Builder
		b.WriteString("(set-option :timeout 1500)\n")
		var body strings.Builder
		for _, d := range vc.decls {
			body.WriteString(d + "\n")
		}
		for _, it := range vc.items {
			if it.probe || it.ob != nil {
				continue
			}
			body.WriteString("(assert " + it.fact + ")\n")
		}
		var idx []int
		for k := range vc.reach {
			idx = append(idx, k)
		}
		sort.Ints(idx)
		for _, k := range idx {
			fmt.Fprintf(&body, "(echo \"blk %d\")\n(push 1)\n(assert %s)\n(check-sat)\n(pop 1)\n", k, vc.reach[k])
		}
		bs := body.String()
		b.WriteString(prelude)
		for _, d := range e.structDeclsFor(bs) {
			b.WriteString(d + "\n")
		}
		b.WriteString(bs)
		cmd := exec.Command("z3-new", "-in", "-smt2")
		cmd.Stdin = strings.NewReader(b.String())
		o, _ := cmd.Output()
		lines := strings.Split(string(o), "\n")
		r := res{fn: name}
		for j := 0; j+1 < len(lines); j++ {
			if strings.HasPrefix(lines[j], "blk ") && strings.TrimSpace(lines[j+1]) == "unsat" {
				k, _ := strconv.Atoi(strings.TrimPrefix(lines[j], "blk "))
				cmt := ""
				for _, bb := range vc.fn.Blocks {
					if bb.Index == k {
						cmt = bb.Comment
						if p := lastPos(bb); p.IsValid() {
							cmt += " @" + shortFile(e.fset.Position(p).String())
						}
					}
				}
				r.dead = append(r.dead, fmt.Sprintf("%d %s", k, cmt))
			}
		}
		out[i] = r
	})
	n := 0
	for _, r := range out {
		if len(r.dead) > 0 {
			n += len(r.dead)
			fmt.Printf("%s: %s\n", r.fn, strings.Join(r.dead, "; "))
		}
	}
	fmt.Printf("%d blocks refuted\n", n)
}
