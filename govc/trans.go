package main

// Translation of one go/ssa function into a sequence of SMT facts and named checks.

import (
	"fmt"
	"go/ast"
	"go/constant"
	"go/token"
	"go/types"
	"sort"
	"strings"

	"golang.org/x/tools/go/ast/astutil"
	"golang.org/x/tools/go/ssa"
)

type Obligation struct {
	Name   string
	Fn     string
	Kind   string
	Text   string
	Props  []string
	Pos    string
	Guard  Term
	Cond   Term
	Index  int // index among checks of the VC
	Result string
	Solver string
	TimeMs int64
	Model  string
	Detail string
}

type item struct {
	fact  Term
	ob    *Obligation
	cmt   string
	probe bool // vacuity probe: the facts so far must be satisfiable
}

type Heap struct {
	arr   map[string]Term
	alloc Term
}

func (h *Heap) clone() *Heap {
	n := &Heap{arr: make(map[string]Term, len(h.arr)), alloc: h.alloc}
	for k, v := range h.arr {
		n.arr[k] = v
	}
	return n
}

// LV is a resolved memory location.
type LV struct {
	arr   string   // heap array name ("" for struct-at-ref)
	sort  string   // sort of the array
	idx   []Term   // 0, 1 or 2 indices
	path  []lvStep // datatype path inside the stored value
	typ   types.Type
	ref   Term // for struct-at-ref locations
	nnKey string // key for the non-nil discipline ("T.f" or slice type)
	fresh bool
	elemOf string // element of a slice loaded from field "T.f"
}

type lvStep struct {
	si  *structInfo
	fld int
}

type VC struct {
	e   *Engine
	fn  *ssa.Function
	con *Contract

	decls    []string
	declared map[string]bool
	items    []*item
	obls     []*Obligation
	nameCnt  map[string]int

	val   map[ssa.Value]Term
	lv    map[ssa.Value]*LV
	tuple map[ssa.Value][]Term

	reach   map[int]Term
	edges   map[[2]int]Term
	hout    map[int]*Heap
	hin     map[int]*Heap
	cur     *Heap
	entry   *Heap
	blk     *ssa.BasicBlock
	rb      Term
	arrSort map[string]string
	arrays  map[string]bool // all arrays known (pass 1 result)
	nfresh  int
	pass    int

	backEdge  map[[2]int]bool
	loopBlks  map[int]map[int]bool // header -> set of block indices in the loop
	loopSpecs map[int]*LoopSpec
	loopHeads []int
	hdrState  map[int]*hdrInfo
	topo      []*ssa.BasicBlock

	strLits  map[string]Term
	strOrder []string
	fltLits  map[string]int

	unsupported []string
	notes       []string
	usedTrusted map[string]bool
	usedLib     map[string]bool
	addrOnly    map[ssa.Value]bool
	escBefore   map[ssa.Instruction][]*ssa.Alloc
	escAtEnd    map[int][]*ssa.Alloc
	deferred    []*ssa.Defer
	params      map[string]ssa.Value
	retNames    []string
	opts        *Options
	factSeen    map[string]bool
	ghostEnv    map[string]Term
	Vacuous     bool // the entry assumptions (requires, axioms) are contradictory
	inTypeInv   bool
	fromField   map[ssa.Value]string
	hdrSrc      map[int]ast.Node
	noAssume    map[int]bool // obligations (by index) that failed as support of another property: not assumed
	bareLoops   []string // header texts of the loops without a contract
	bareLoopAt  []int    // per entry of bareLoops: source line where the loop starts, 0 = nested in another loop
	curIdx      int
	litTerms    map[Term]bool
	addrVars    map[ssa.Value]bool // allocations that hold source variables (debug refs with IsAddr)
	evalPos     token.Pos // source position at which contract names are resolved (type-switch variables)
	escapedLib  []*LV     // locations whose address was passed to a library function
	libCells    map[string]string // cell arrays holding variables whose address a library function has seen
	runeConvs   [][2]Term         // (string, []rune(string)) pairs, for the counterexample generator
}

type hdrInfo struct {
	heap   *Heap           // heap at header after havoc
	phiSub map[ssa.Value]Term
	decr   []Term // values of decreases measures at the header
}

type Options struct {
	SafetyProps []string
}

func (vc *VC) fresh(prefix, sort string) Term {
	vc.nfresh++
	n := sym(fmt.Sprintf("%s!%d", prefix, vc.nfresh))
	vc.declare(n, sort)
	return n
}

func (vc *VC) declare(name, sort string) {
	if vc.declared[name] {
		return
	}
	vc.declared[name] = true
	vc.decls = append(vc.decls, fmt.Sprintf("(declare-const %s %s)", name, sort))
}

func (vc *VC) declareFun(name string, args []string, ret string) {
	if vc.declared[name] {
		return
	}
	vc.declared[name] = true
	vc.decls = append(vc.decls, fmt.Sprintf("(declare-fun %s (%s) %s)", name, strings.Join(args, " "), ret))
}

func (vc *VC) fact(t Term) {
	if t == "true" || t == "" {
		return
	}
	vc.items = append(vc.items, &item{fact: t})
}

// gfact adds a fact guarded by the reachability of the current block.
func (vc *VC) gfact(t Term) {
	if t == "true" || t == "" {
		return
	}
	vc.fact(Imp(vc.rb, t))
}

// once adds an (unguarded, definitional) fact only once per VC
func (vc *VC) once(t Term) {
	if vc.factSeen[t] {
		return
	}
	vc.factSeen[t] = true
	vc.fact(t)
}

func (vc *VC) unsupp(f string, a ...interface{}) {
	vc.unsupported = append(vc.unsupported, fmt.Sprintf(f, a...))
}

// ------------------------------------------------------------------------------------------
// heap access

func (vc *VC) arrCur(name, sort string) Term {
	if t, ok := vc.cur.arr[name]; ok {
		return t
	}
	vc.arrays[name] = true
	vc.arrSort[name] = sort
	t := sym(name + "!0")
	vc.declare(t, sort)
	vc.cur.arr[name] = t
	// also visible in entry heap
	if _, ok := vc.entry.arr[name]; !ok {
		vc.entry.arr[name] = t
	}
	return t
}

func (vc *VC) arrIn(h *Heap, name, sort string) Term {
	if t, ok := h.arr[name]; ok {
		return t
	}
	vc.arrays[name] = true
	vc.arrSort[name] = sort
	t := sym(name + "!0")
	vc.declare(t, sort)
	h.arr[name] = t
	return t
}

func (vc *VC) setArr(name, sort string, t Term) {
	// name the new version with a constant to keep terms small
	vc.arrays[name] = true
	vc.arrSort[name] = sort
	c := vc.fresh(name, sort)
	vc.fact(Eq(c, t))
	vc.cur.arr[name] = c
}

func (vc *VC) havocArr(name string) Term {
	sort := vc.arrSort[name]
	c := vc.fresh(name, sort)
	vc.cur.arr[name] = c
	return c
}

func (vc *VC) readLV(l *LV) Term { return vc.readLVIn(vc.cur, l) }

func (vc *VC) readLVIn(h *Heap, l *LV) Term {
	if l.arr == "" {
		return vc.structAt(h, l.ref, l.typ)
	}
	t := vc.arrIn(h, l.arr, l.sort)
	for _, i := range l.idx {
		t = Sel(t, i)
	}
	for _, st := range l.path {
		t = sx(st.si.accs[st.fld], t)
	}
	return t
}

func (vc *VC) writeLV(l *LV, v Term) {
	if l.arr == "" {
		vc.storeStructAt(l.ref, l.typ, v)
		return
	}
	a := vc.arrCur(l.arr, l.sort)
	// value at the indices
	nv := v
	if len(l.path) > 0 {
		base := a
		for _, i := range l.idx {
			base = Sel(base, i)
		}
		nv = updPath(base, l.path, v)
	}
	switch len(l.idx) {
	case 0:
		vc.setArr(l.arr, l.sort, nv)
	case 1:
		vc.setArr(l.arr, l.sort, Sto(a, l.idx[0], nv))
	case 2:
		vc.setArr(l.arr, l.sort, Sto(a, l.idx[0], Sto(Sel(a, l.idx[0]), l.idx[1], nv)))
	}
}

func updPath(base Term, path []lvStep, v Term) Term {
	if len(path) == 0 {
		return v
	}
	st := path[0]
	var args []Term
	for i := range st.si.fields {
		if i == st.fld {
			args = append(args, updPath(sx(st.si.accs[i], base), path[1:], v))
		} else {
			args = append(args, sx(st.si.accs[i], base))
		}
	}
	return sx(st.si.ctor, args...)
}

// embedded struct pointer
func (vc *VC) embPtr(structType types.Type, fld int, base Term) Term {
	st := structType.Underlying().(*types.Struct)
	key := vc.e.typeName(structType) + "." + st.Field(fld).Name()
	fn := sym("emb:" + key)
	inv := sym("unemb:" + key)
	vc.declareFun(fn, []string{"Int"}, "Int")
	vc.declareFun(inv, []string{"Int"}, "Int")
	t := sx(fn, base)
	k := vc.e.embKind(key)
	// (an interior pointer of an object allocated after the function was entered did not exist at entry either)
	vc.once(And(Eq(sx(inv, t), base), Eq(sx("rkind", t), IntLit(int64(k))), Imp(Gt(base, "alloc!0"), Gt(t, "alloc!0"))))
	return t
}

// structAt builds the datatype value of a struct stored (flattened) at ref r.
func (vc *VC) structAt(h *Heap, r Term, t types.Type) Term {
	s := vc.e.structSort(t)
	si := vc.e.structs[s]
	var args []Term
	for i, f := range si.fields {
		if isStruct(f.Type()) {
			args = append(args, vc.structAt(h, vc.embPtr(t, i, r), f.Type()))
			continue
		}
		n, srt, _ := vc.e.fieldArr(t, i)
		args = append(args, Sel(vc.arrIn(h, n, srt), r))
	}
	if len(args) == 0 {
		return si.ctor
	}
	return sx(si.ctor, args...)
}

func (vc *VC) storeStructAt(r Term, t types.Type, v Term) {
	s := vc.e.structSort(t)
	si := vc.e.structs[s]
	for i, f := range si.fields {
		fv := sx(si.accs[i], v)
		if isStruct(f.Type()) {
			vc.storeStructAt(vc.embPtr(t, i, r), f.Type(), fv)
			continue
		}
		n, srt, _ := vc.e.fieldArr(t, i)
		vc.setArr(n, srt, Sto(vc.arrCur(n, srt), r, fv))
	}
}

func (vc *VC) zeroStructAt(r Term, t types.Type) {
	st := t.Underlying().(*types.Struct)
	for i := 0; i < st.NumFields(); i++ {
		f := st.Field(i)
		if isStruct(f.Type()) {
			vc.zeroStructAt(vc.embPtr(t, i, r), f.Type())
			continue
		}
		n, srt, _ := vc.e.fieldArr(t, i)
		vc.setArr(n, srt, Sto(vc.arrCur(n, srt), r, vc.e.zeroOf(f.Type())))
	}
}

func (vc *VC) allocRef(prefix string) Term {
	a := vc.fresh(prefix, SInt)
	vc.fact(Eq(a, Add(vc.cur.alloc, "1")))
	vc.fact(Eq(sx("rkind", a), "0"))
	na := vc.fresh("alloc", SInt)
	vc.fact(Eq(na, a))
	vc.cur.alloc = na
	return a
}

// ------------------------------------------------------------------------------------------
// constants

func (vc *VC) strLit(s string) Term {
	if s == "" {
		return "empty_str"
	}
	if t, ok := vc.strLits[s]; ok {
		return t
	}
	t := sym(fmt.Sprintf("str!%d", len(vc.strLits)))
	vc.declare(t, SStr)
	vc.strLits[s] = t
	vc.litTerms[t] = true
	vc.strOrder = append(vc.strOrder, s)
	vc.fact(Eq(sx("slen", t), IntLit(int64(len(s)))))
	if len(s) <= 12 {
		for i := 0; i < len(s); i++ {
			vc.fact(Eq(sx("sat", t, IntLit(int64(i))), IntLit(int64(s[i]))))
		}
	} else {
		vc.fact(Eq(sx("sat", t, "0"), IntLit(int64(s[0]))))
	}
	if strings.ToLower(s) == s {
		vc.fact(sx("folded", t))
		vc.fact(Eq(sx("lower", t), t))
	} else {
		vc.fact(Not(sx("folded", t)))
	}
	if strings.ContainsAny(s, "\n\r") {
		vc.fact(Not(sx("nlfree", t)))
	} else {
		vc.fact(sx("nlfree", t))
	}
	return t
}

func (vc *VC) constTerm(c *ssa.Const) Term {
	t := c.Type()
	if c.Value == nil {
		return vc.e.zeroOf(t)
	}
	switch u := t.Underlying().(type) {
	case *types.Basic:
		info := u.Info()
		switch {
		case info&types.IsBoolean != 0:
			if constant.BoolVal(c.Value) {
				return "true"
			}
			return "false"
		case info&types.IsString != 0:
			return vc.strLit(constant.StringVal(c.Value))
		case info&types.IsInteger != 0:
			s := c.Value.ExactString()
			if strings.HasPrefix(s, "-") {
				return "(- " + s[1:] + ")"
			}
			return s
		case info&types.IsFloat != 0:
			s := c.Value.ExactString()
			if s == "0" {
				return "(flt_lit 0)"
			}
			if n, ok := vc.fltLits[s]; ok {
				return fmt.Sprintf("(flt_lit %d)", n)
			}
			n := len(vc.fltLits) + 1
			vc.fltLits[s] = n
			return fmt.Sprintf("(flt_lit %d)", n)
		}
	}
	vc.unsupp("constant of type %s", t)
	return vc.fresh("const", vc.e.sortOf(t))
}

// ------------------------------------------------------------------------------------------
// values

func (vc *VC) v(x ssa.Value) Term {
	if t, ok := vc.val[x]; ok {
		return t
	}
	switch c := x.(type) {
	case *ssa.Const:
		return vc.constTerm(c)
	case *ssa.Global:
		n := sym("gaddr:" + c.Name())
		vc.declare(n, SInt)
		vc.val[x] = n
		return n
	case *ssa.Function:
		n := sym("fn:" + c.String())
		vc.declare(n, SInt)
		vc.once(Ne(n, "0"))
		vc.val[x] = n
		return n
	case *ssa.Builtin:
		return "0"
	}
	// value used before definition (should not happen in topological order except via phis of back edges)
	t := vc.fresh("undef", vc.e.sortOf(x.Type()))
	vc.val[x] = t
	return t
}

func (vc *VC) nilOf(t types.Type) Term { return vc.e.zeroOf(t) }

func (vc *VC) isNil(term Term, t types.Type) Term {
	switch t.Underlying().(type) {
	case *types.Slice:
		return Eq(sx("s_arr", term), "0")
	case *types.Interface:
		return Eq(sx("i_tag", term), "0")
	default:
		return Eq(term, "0")
	}
}

func canBeNil(t types.Type) bool {
	switch u := t.Underlying().(type) {
	case *types.Pointer, *types.Map, *types.Chan, *types.Signature, *types.Interface, *types.Slice:
		return true
	case *types.Basic:
		return u.Kind() == types.UnsafePointer
	}
	return false
}

// assumeType adds the facts that hold for every value of a Go type.
func (vc *VC) typeFacts(term Term, t types.Type) Term {
	var fs []Term
	switch u := t.Underlying().(type) {
	case *types.Basic:
		switch u.Kind() {
		case types.Uint8:
			fs = append(fs, Ge(term, "0"), Le(term, "255"))
		case types.Uint, types.Uint16, types.Uint32, types.Uint64, types.Uintptr:
			fs = append(fs, Ge(term, "0"))
		case types.Int32:
			fs = append(fs, Ge(term, "(- 2147483648)"), Le(term, "2147483647"))
		case types.String:
			fs = append(fs, Ge(sx("slen", term), "0"))
		}
	case *types.Slice:
		fs = append(fs, Ge(sx("s_len", term), "0"), Ge(sx("s_off", term), "0"), Ge(sx("s_cap", term), sx("s_len", term)),
			Imp(Eq(sx("s_arr", term), "0"), Eq(term, "nil_slice")), Le(sx("s_arr", term), vc.cur.alloc), Ge(sx("s_arr", term), "0"))
	case *types.Pointer:
		fs = append(fs, Le(term, vc.cur.alloc))
		if !vc.inTypeInv {
			for _, ti := range vc.e.cs.TypeInvs {
				if !ti.Assumed || vc.e.typeName(u.Elem()) != ti.Type {
					continue
				}
				vc.inTypeInv = true
				ce := &cenv{vc: vc, vars: map[string]cval{"self": {t: term, typ: t}}, heap: vc.cur}
				r := ce.eval(ti.Expr)
				vc.inTypeInv = false
				if ce.err == nil {
					fs = append(fs, Imp(Ne(term, "0"), r.t))
					vc.usedTrusted["assume_inv "+ti.Text] = true
				} else {
					vc.unsupp("assume_inv %s: %v", ti.Text, ce.err)
				}
			}
		}
	case *types.Map:
		fs = append(fs, Le(term, vc.cur.alloc), Ge(term, "0"))
	case *types.Interface:
		fs = append(fs, Imp(Eq(sx("i_tag", term), "0"), Eq(term, "nil_iface")), Ge(sx("i_tag", term), "0"))
		// closed world: a value of an interface declared in this package holds one of the package's implementers
		if nt, ok := t.(*types.Named); ok && nt.Obj().Pkg() == vc.e.tpkg && u.NumMethods() > 0 {
			if tags := vc.e.implTags(t); len(tags) > 0 && len(tags) <= 24 {
				alts := []Term{Eq(sx("i_tag", term), "0")}
				for _, tg := range tags {
					alts = append(alts, Eq(sx("i_tag", term), IntLit(int64(tg))))
				}
				fs = append(fs, Or(alts...))
			}
		}
	case *types.Struct:
		s := vc.e.structSort(t)
		si := vc.e.structs[s]
		for i, f := range si.fields {
			fs = append(fs, vc.typeFacts(sx(si.accs[i], term), f.Type()))
			if canBeNil(f.Type()) && vc.e.cs.NonNilField[vc.nonNilKeyField(t, i)] {
				fs = append(fs, Not(vc.isNil(sx(si.accs[i], term), f.Type())))
			}
		}
	}
	return And(fs...)
}

// ------------------------------------------------------------------------------------------
// obligations

func (vc *VC) exprText(pos token.Pos, kinds ...string) string {
	if !pos.IsValid() {
		return ""
	}
	f := vc.e.fileOf(pos)
	if f == nil {
		return ""
	}
	path, _ := astutil.PathEnclosingInterval(f, pos, pos)
	for _, n := range path {
		switch x := n.(type) {
		case *ast.SelectorExpr, *ast.IndexExpr, *ast.SliceExpr, *ast.StarExpr, *ast.CallExpr, *ast.TypeAssertExpr, *ast.UnaryExpr, *ast.BinaryExpr, *ast.CompositeLit, *ast.RangeStmt, *ast.KeyValueExpr:
			if rs, ok := x.(*ast.RangeStmt); ok {
				return "range " + types.ExprString(rs.X)
			}
			if e, ok := x.(ast.Expr); ok {
				s := types.ExprString(e)
				if len(s) > 80 {
					s = s[:77] + "..."
				}
				return s
			}
		case *ast.AssignStmt:
			if len(x.Lhs) > 0 {
				s := types.ExprString(x.Lhs[0])
				if len(s) > 60 {
					s = s[:57] + "..."
				}
				return s + " " + x.Tok.String()
			}
		case *ast.Ident:
			continue
		}
	}
	return ""
}

func (vc *VC) check(kind string, pos token.Pos, text string, cond Term, props []string) *Obligation {
	return vc.checkG(kind, pos, text, vc.rb, cond, props)
}

func (vc *VC) checkG(kind string, pos token.Pos, text string, guard, cond Term, props []string) *Obligation {
	if cond == "true" {
		switch kind {
		case "at-call", "at-store", "callback", "at-return", "body-calls", "body-stores", "forbid-call", "nlfree-msg", "format-const", "map-order", "loop-complete", "loop-nobreak", "loop-noreturn", "ensures", "inv-entry", "inv-preserved", "decreases", "fresh-writes":
			// syntactically trivial contract obligations are still recorded: if the code changes they
			// become real obligations under the same name
		default:
			return nil
		}
	}
	if text == "" {
		text = vc.exprText(pos)
	}
	base := vc.e.fname(vc.fn) + "/" + kind + "/" + text
	vc.nameCnt[base]++
	name := base
	if n := vc.nameCnt[base]; n > 1 {
		name = fmt.Sprintf("%s#%d", base, n)
	}
	p := ""
	if pos.IsValid() {
		pp := vc.e.posOf(pos)
		p = fmt.Sprintf("%s:%d:%d", shortFile(pp.Filename), pp.Line, pp.Column)
	}
	ob := &Obligation{Name: name, Fn: vc.e.fname(vc.fn), Kind: kind, Text: text, Props: props, Pos: p, Guard: guard, Cond: cond}
	ob.Index = len(vc.obls)
	vc.obls = append(vc.obls, ob)
	vc.items = append(vc.items, &item{ob: ob})
	return ob
}

func shortFile(s string) string {
	if i := strings.LastIndex(s, "/"); i >= 0 {
		return s[i+1:]
	}
	return s
}

// ------------------------------------------------------------------------------------------
// CFG preparation

func (vc *VC) prepareCFG() bool {
	fn := vc.fn
	vc.backEdge = map[[2]int]bool{}
	vc.loopBlks = map[int]map[int]bool{}
	reachable := map[int]bool{}
	var dfs func(b *ssa.BasicBlock)
	dfs = func(b *ssa.BasicBlock) {
		if reachable[b.Index] {
			return
		}
		reachable[b.Index] = true
		for _, s := range b.Succs {
			dfs(s)
		}
	}
	dfs(fn.Blocks[0])
	for _, b := range fn.Blocks {
		if !reachable[b.Index] {
			continue
		}
		for _, s := range b.Succs {
			if s.Dominates(b) {
				vc.backEdge[[2]int{b.Index, s.Index}] = true
				set := vc.loopBlks[s.Index]
				if set == nil {
					set = map[int]bool{s.Index: true}
					vc.loopBlks[s.Index] = set
				}
				// natural loop: all nodes that can reach b without passing through s
				var stack []*ssa.BasicBlock
				if !set[b.Index] {
					set[b.Index] = true
					stack = append(stack, b)
				}
				for len(stack) > 0 {
					x := stack[len(stack)-1]
					stack = stack[:len(stack)-1]
					for _, p := range x.Preds {
						if !set[p.Index] && reachable[p.Index] {
							set[p.Index] = true
							stack = append(stack, p)
						}
					}
				}
			}
		}
	}
	for h := range vc.loopBlks {
		vc.loopHeads = append(vc.loopHeads, h)
	}
	sort.Ints(vc.loopHeads)
	// topological order ignoring back edges
	indeg := map[int]int{}
	for _, b := range fn.Blocks {
		if !reachable[b.Index] {
			continue
		}
		for _, s := range b.Succs {
			if !vc.backEdge[[2]int{b.Index, s.Index}] {
				indeg[s.Index]++
			}
		}
	}
	var q []*ssa.BasicBlock
	q = append(q, fn.Blocks[0])
	seen := 0
	for len(q) > 0 {
		// pick the smallest index for determinism
		mi := 0
		for i := range q {
			if q[i].Index < q[mi].Index {
				mi = i
			}
		}
		b := q[mi]
		q = append(q[:mi], q[mi+1:]...)
		vc.topo = append(vc.topo, b)
		seen++
		for _, s := range b.Succs {
			if vc.backEdge[[2]int{b.Index, s.Index}] {
				continue
			}
			indeg[s.Index]--
			if indeg[s.Index] == 0 {
				q = append(q, s)
			}
		}
	}
	n := 0
	for range reachable {
		n++
	}
	if seen != n {
		vc.unsupp("irreducible control flow")
		return false
	}
	return true
}

// loopWrites computes the arrays written inside the loop with header h.
func (vc *VC) loopWrites(h int) *ModSet {
	m := newModSet()
	for _, b := range vc.fn.Blocks {
		if !vc.loopBlks[h][b.Index] {
			continue
		}
		for _, ins := range b.Instrs {
			switch x := ins.(type) {
			case *ssa.Store:
				if al, ok := rootOf(x.Addr).(*ssa.Alloc); ok && isStruct(deref(al.Type())) {
					// a store into a locally allocated struct: only that object changes
					_, isFA := x.Addr.(*ssa.FieldAddr)
					if isFA || x.Addr == ssa.Value(al) {
						vc.e.storeArrays(x.Addr, x.Val.Type(), func(n string) {
							if m.Local == nil {
								m.Local = map[string][]ssa.Value{}
							}
							m.Local[n] = append(m.Local[n], al)
						})
						continue
					}
				}
				vc.e.storeArrays(x.Addr, x.Val.Type(), func(n string) { m.add(n, modOld) })
			case *ssa.MapUpdate:
				d, v, _, _ := vc.e.mapArrs(x.Map.Type().Underlying().(*types.Map))
				m.add(d, modOld)
				m.add(v, modOld)
			case *ssa.Alloc:
				t := deref(x.Type())
				if isStruct(t) {
					vc.e.structArrays(t, func(n string) { m.add(n, modFresh) })
				} else if at, ok := t.Underlying().(*types.Array); ok {
					n, _ := vc.e.elemArr(at.Elem())
					m.add(n, modFresh)
				} else {
					n, _ := vc.e.cellArr(t)
					m.add(n, modFresh)
				}
			case *ssa.MakeSlice:
				n, _ := vc.e.elemArr(x.Type().Underlying().(*types.Slice).Elem())
				m.add(n, modFresh)
			case *ssa.MakeMap:
				d, v, _, _ := vc.e.mapArrs(x.Type().Underlying().(*types.Map))
				m.add(d, modFresh)
				m.add(v, modFresh)
			case *ssa.Next:
				m.add(vc.iterName(x.Iter), modOld)
			case ssa.CallInstruction:
				cm := vc.callModSet(x)
				m.union(cm, false)
			}
		}
	}
	return m
}

func (vc *VC) iterName(v ssa.Value) string {
	r, ok := v.(*ssa.Range)
	if !ok {
		return "IT:?"
	}
	return fmt.Sprintf("IT:%d.%d", r.Block().Index, indexInBlock(r))
}

func indexInBlock(ins ssa.Instruction) int {
	for i, x := range ins.Block().Instrs {
		if x == ins {
			return i
		}
	}
	return -1
}

// callModSet returns the arrays a call may write.
func (vc *VC) callModSet(call ssa.CallInstruction) *ModSet {
	m := newModSet()
	vc.e.callMods(vc.fn, call, m, func(g *ssa.Function) {
		if c := vc.e.cs.Funcs[vc.e.fname(g)]; c != nil && c.HasMod {
			for _, n := range c.Modifies {
				m.add(n, modOld)
			}
			return
		}
		if gm := vc.e.mods[g]; gm != nil {
			m.union(gm, false)
		} else if fw := forwardedCallees(g); len(fw) > 0 {
			for _, h := range fw {
				if hm := vc.e.mods[h]; hm != nil {
					m.union(hm, false)
				} else {
					m.All = true
				}
			}
		} else {
			m.All = true
		}
	})
	return m
}

// eltTerm: the element j of slice s in element heap E, as an application of the function elt:<T>
// (defined by a quantified axiom as E[arr(s)][off(s)+j]). Contracts index slices through it so that
// quantifier triggers contain no arithmetic.
func (vc *VC) eltTerm(elem types.Type, E, s, j Term) Term {
	n, srt := vc.e.elemArr(elem)
	fn := sym("elt:" + n[2:])
	if !vc.declared[fn] {
		vc.declareFun(fn, []string{srt, SSlice, SInt}, vc.e.sortOf(elem))
		vc.decls = append(vc.decls, fmt.Sprintf("(assert (forall ((e %s) (s Slice) (j Int)) (! (= (%s e s j) (select (select e (s_arr s)) (+ (s_off s) j))) :pattern ((%s e s j)))))", srt, fn, fn))
	}
	return sx(fn, E, s, j)
}

// mapLen: the length of a map is a function of its key set in the given heap (so an update changes it), zero
// for the nil map; a non-empty key set has a member (a witness function), an empty one has none.
func (vc *VC) mapLen(h *Heap, m Term, mt *types.Map) Term {
	d, _, ds, _ := vc.e.mapArrs(mt)
	ks := vc.e.sortOf(mt.Key())
	dom := Sel(vc.arrIn(h, d, ds), m)
	fn := sym("maplen:" + ks)
	wit := sym("mapwit:" + ks)
	vc.declareFun(fn, []string{"(Array " + ks + " Bool)"}, "Int")
	vc.declareFun(wit, []string{"(Array " + ks + " Bool)"}, ks)
	t := sx(fn, dom)
	vc.fact(And(Ge(t, "0"), Imp(Eq(m, "0"), Eq(t, "0")), Imp(Gt(t, "0"), Sel(dom, sx(wit, dom))),
		fmt.Sprintf("(=> (= %s 0) (forall ((k %s)) (! (not (select %s k)) :pattern ((select %s k)))))", t, ks, dom, dom)))
	return t
}
