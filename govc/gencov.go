package main

// `govc gencov`: generates the coverage contracts of property C03 from the AST type definitions
// (ast.go): for every node type the set of scalar-bearing fields, as postconditions of the visitor
// callbacks and checker helpers of rule_expression.go, plus the matching loop invariants.
// Adding a field to an AST struct adds an obligation automatically when the file is regenerated.

import (
	"flag"
	"fmt"
	"go/ast"
	"go/types"
	"os"
	"path/filepath"
	"sort"
	"strings"

	"golang.org/x/tools/go/ssa"
)

type covGen struct {
	e    *Engine
	root bool
	skip map[string]bool // "Type.Field" not required (mapping keys, documented exclusions)
	stop map[string]bool // types not descended into
	nvar int
}

func (g *covGen) named(t types.Type) string {
	if p, ok := t.Underlying().(*types.Pointer); ok {
		t = p.Elem()
	}
	if n, ok := t.(*types.Named); ok {
		return n.Obj().Name()
	}
	return ""
}

// cov returns a formula stating that every scalar reachable from expression ex (of type t) has been scanned.
func (g *covGen) cov(ex string, t types.Type, extraSkip map[string]bool) string {
	switch u := t.Underlying().(type) {
	case *types.Pointer:
		name := g.named(t)
		switch name {
		case "String":
			return fmt.Sprintf("(%s != nil ==> scanned[%s.Pos])", ex, ex)
		case "Bool", "Int", "Float":
			return fmt.Sprintf("(%s != nil && %s.Expression != nil ==> scanned[%s.Expression.Pos])", ex, ex, ex)
		}
		if g.stop[name] && !g.root {
			return ""
		}
		g.root = false
		st, ok := u.Elem().Underlying().(*types.Struct)
		if !ok {
			return ""
		}
		if custom, ok := customCov[name]; ok {
			return strings.ReplaceAll(custom, "$", ex)
		}
		var parts []string
		for i := 0; i < st.NumFields(); i++ {
			f := st.Field(i)
			key := name + "." + f.Name()
			if g.skip[key] || extraSkip[key] || f.Name() == "Pos" {
				continue
			}
			if f.Name() == "If" {
				// `if:` conditions without ${{ }} are parsed as a whole expression (no placeholder scan)
				parts = append(parts, fmt.Sprintf("(%s.If != nil && hasexpr(%s.If.Value) ==> scanned[%s.If.Pos])", ex, ex, ex))
				continue
			}
			if c := g.cov(ex+"."+f.Name(), f.Type(), extraSkip); c != "" {
				parts = append(parts, c)
			}
		}
		if len(parts) == 0 {
			return ""
		}
		return fmt.Sprintf("(%s != nil ==> (%s))", ex, strings.Join(parts, " && "))
	case *types.Slice:
		g.nvar++
		v := fmt.Sprintf("j%d", g.nvar)
		c := g.cov(ex+"["+v+"]", u.Elem(), extraSkip)
		if c == "" {
			return ""
		}
		return fmt.Sprintf("(forall %s :: 0 <= %s && %s < len(%s) ==> %s)", v, v, v, ex, c)
	case *types.Map:
		g.nvar++
		v := fmt.Sprintf("k%d", g.nvar)
		c := g.cov(ex+"["+v+"]", u.Elem(), extraSkip)
		if c == "" {
			return ""
		}
		return fmt.Sprintf("(forall %s: string :: %s.has(%s) ==> %s)", v, ex, v, c)
	case *types.Interface:
		name := g.named(t)
		if name != "Event" && name != "Exec" {
			return ""
		}
		var parts []string
		var names []string
		for n := range g.e.pkg.Members {
			names = append(names, n)
		}
		sort.Strings(names)
		for _, n := range names {
			tn, ok := g.e.pkg.Members[n].(*ssa.Type)
			if !ok {
				continue
			}
			pt := types.NewPointer(tn.Type())
			if types.Implements(pt, u) && !types.IsInterface(tn.Type()) {
				c := g.cov(fmt.Sprintf("dyn(%s, \"*%s\")", ex, n), pt, extraSkip)
				if c != "" {
					parts = append(parts, fmt.Sprintf("(istype(%s, \"*%s\") ==> %s)", ex, n, c))
				}
			}
		}
		if len(parts) == 0 {
			return ""
		}
		return "(" + strings.Join(parts, " && ") + ")"
	}
	return ""
}

// types whose two alternative representations (literal / single expression) are exclusive:
// the parser sets one of them, the checker looks at the one that is set.
var customCov = map[string]string{
	"Env":      "($ != nil ==> ((forall kE: string :: $.Vars.has(kE) ==> ($.Vars[kE] != nil && $.Vars[kE].Value != nil ==> scanned[$.Vars[kE].Value.Pos])) && ($.Vars == nil && $.Expression != nil ==> scanned[$.Expression.Pos])))",
	"Runner":   "($ != nil ==> (($.LabelsExpr != nil ==> scanned[$.LabelsExpr.Pos]) && ($.LabelsExpr == nil ==> (forall jR :: 0 <= jR && jR < len($.Labels) ==> ($.Labels[jR] != nil ==> scanned[$.Labels[jR].Pos]))) && ($.Group != nil ==> scanned[$.Group.Pos])))",
	"Defaults": "($ != nil && $.Run != nil ==> (($.Run.Shell != nil ==> scanned[$.Run.Shell.Pos]) && ($.Run.WorkingDirectory != nil ==> scanned[$.Run.WorkingDirectory.Pos])))",
}

func cmdGenCov(args []string) {
	fs := flag.NewFlagSet("gencov", flag.ExitOnError)
	repo := fs.String("repo", "/repo", "repository")
	out := fs.String("o", "", "output file")
	fs.Parse(args)
	if *out == "" {
		*out = filepath.Join(*repo, "verif_contracts_cov.go")
	}
	os.Remove(*out)
	e, err := loadEngine(*repo)
	if err != nil {
		fmt.Fprintln(os.Stderr, err)
		os.Exit(2)
	}
	g := &covGen{e: e, skip: map[string]bool{}, stop: map[string]bool{}}
	// mapping keys and the exclusions named in the property (event names, input type, permissions, secrets: inherit)
	for _, k := range []string{"WebhookEventFilter.Name", "WebhookEvent.Hook", "DispatchInput.Name", "WorkflowCallEventInput.Name",
		"WorkflowCallEventSecret.Name", "WorkflowCallEventOutput.Name", "Input.Name", "Output.Name", "WorkflowCallInput.Name",
		"WorkflowCallSecret.Name", "Service.Name", "MatrixRow.Name", "MatrixAssign.Key", "Job.ID", "EnvVar.Name", "Step.ID",
		"Job.Steps", "Workflow.Jobs", "Job.Permissions", "Workflow.Permissions", "Strategy.Matrix"} {
		g.skip[k] = true
	}
	for _, k := range []string{"Permissions", "Matrix", "Pos", "Job", "Step"} {
		g.stop[k] = true
	}
	typ := func(name string) types.Type {
		return types.NewPointer(e.tpkg.Scope().Lookup(name).Type())
	}
	var b strings.Builder
	b.WriteString("//go:build verif\n\n// Code generated by `govc gencov` from the AST type definitions; DO NOT EDIT.\n")
	b.WriteString("// Property C03 (every ${{ }} placeholder is checked): `scanned` is the set of scalar positions whose text\n")
	b.WriteString("// was handed to checkExprsIn, which scans it for every `${{`. Each visitor callback must have scanned every\n")
	b.WriteString("// scalar-bearing field of its node (mapping keys, event names, permissions and input types excepted).\n\n")
	b.WriteString("package actionlint\n\n")
	b.WriteString("//@ ghost scanned: set<ref>\n\n")
	b.WriteString("//@ func (*RuleExpression).checkExprsIn\n//@   effect scanned[pos] = true\n\n")
	b.WriteString("//@ func (*String).ContainsExpression\n//@   ensures result == hasexpr(s.Value)\n\n")
	emit := func(fn, param string, t types.Type, fields []string, extraSkip map[string]bool, special ...string) {
		fmt.Fprintf(&b, "//@ func %s\n//@   props C03 C12\n//@   anchor\n", fn)
		if fields == nil {
			g.nvar = 0
			g.root = true
			if c := g.cov(param, t, extraSkip); c != "" {
				fmt.Fprintf(&b, "//@   ensures %s\n", c)
			}
		} else {
			st := t.Underlying().(*types.Pointer).Elem().Underlying().(*types.Struct)
			for _, fname := range fields {
				for i := 0; i < st.NumFields(); i++ {
					if st.Field(i).Name() == fname {
						g.nvar = 0
						if fname == "If" {
							fmt.Fprintf(&b, "//@   ensures (%s.If != nil && hasexpr(%s.If.Value) ==> scanned[%s.If.Pos])\n", param, param, param)
							continue
						}
						if c := g.cov(param+"."+fname, st.Field(i).Type(), extraSkip); c != "" {
							fmt.Fprintf(&b, "//@   ensures %s\n", c)
						}
					}
				}
			}
		}
		for _, s := range special {
			fmt.Fprintf(&b, "//@   ensures %s\n", s)
		}
		// loop invariants: every loop over a collection of nodes keeps "processed elements are covered"
		f := e.funcs[fn]
		if f != nil && f.Syntax() != nil {
			for _, lk := range loopKeysTyped(e, f) {
				g.nvar = 100
				var inv string
				switch u := lk.typ.Underlying().(type) {
				case *types.Slice:
					if c := g.cov("range_x[jj]", u.Elem(), extraSkip); c != "" {
						inv = fmt.Sprintf("forall jj :: 0 <= jj && jj <= range_i ==> %s", c)
					}
				case *types.Map:
					if c := g.cov("range_x[kk]", u.Elem(), extraSkip); c != "" {
						inv = fmt.Sprintf("forall kk: string :: visited(kk) ==> %s", c)
					}
				}
				if inv == "" {
					continue
				}
				hdr := fmt.Sprintf("loop %q", lk.key)
				if lk.ord > 1 {
					hdr += fmt.Sprintf(" #%d", lk.ord)
				}
				fmt.Fprintf(&b, "//@   %s:\n//@     invariant %s\n", hdr, inv)
			}
		}
		b.WriteString("\n")
	}
	str := typ("String")
	for _, fn := range []string{"checkString", "checkScriptString"} {
		emit("(*RuleExpression)."+fn, "str", str, nil, nil)
	}
	for _, fn := range []string{"checkOneExpression", "checkObjectExpression", "checkArrayExpression", "checkNumberExpression"} {
		emit("(*RuleExpression)."+fn, "s", str, nil, nil)
	}
	fmt.Fprintf(&b, "//@ func (*RuleExpression).checkIfCondition\n//@   props C03\n//@   anchor\n//@   ensures str != nil && hasexpr(str.Value) ==> scanned[str.Pos]\n\n")
	emit("(*RuleExpression).checkBool", "b", typ("Bool"), nil, nil)
	emit("(*RuleExpression).checkInt", "i", typ("Int"), nil, nil)
	emit("(*RuleExpression).checkFloat", "f", typ("Float"), nil, nil)
	emit("(*RuleExpression).checkStrings", "ss", types.NewSlice(str), nil, nil)
	emit("(*RuleExpression).checkEnv", "env", typ("Env"), nil, nil)
	emit("(*RuleExpression).checkContainer", "c", typ("Container"), nil, nil)
	emit("(*RuleExpression).checkConcurrency", "c", typ("Concurrency"), nil, nil)
	emit("(*RuleExpression).checkDefaults", "d", typ("Defaults"), nil, nil)
	emit("(*RuleExpression).checkWorkflowCall", "c", typ("WorkflowCall"), nil, nil)
	emit("(*RuleExpression).checkWebhookEventFilter", "f", typ("WebhookEventFilter"), nil, nil)
	emit("(*RuleExpression).VisitStep", "n", typ("Step"), nil, nil, "n.ID != nil && hasexpr(n.ID.Value) ==> scanned[n.ID.Pos]")
	emit("(*RuleExpression).VisitJobPre", "n", typ("Job"), []string{"Name", "Needs", "RunsOn", "Concurrency", "Env", "Defaults", "If", "TimeoutMinutes", "Strategy", "ContinueOnError", "Container", "Services", "WorkflowCall"}, nil)
	emit("(*RuleExpression).VisitJobPost", "n", typ("Job"), []string{"Environment", "Outputs"}, nil)
	emit("(*RuleExpression).VisitWorkflowPre", "n", typ("Workflow"), []string{"Name", "RunName", "On", "Env", "Defaults", "Concurrency"}, map[string]bool{"WorkflowCallEventOutput.Value": true})
	if err := os.WriteFile(*out, []byte(b.String()), 0o644); err != nil {
		fmt.Fprintln(os.Stderr, err)
		os.Exit(2)
	}
	fmt.Printf("wrote %s\n", *out)
}

type loopKeyT struct {
	key string
	ord int
	typ types.Type
}

// loopKeysTyped: source range loops of f with the type of the ranged expression.
func loopKeysTyped(e *Engine, f *ssa.Function) []loopKeyT {
	var out []loopKeyT
	cnt := map[string]int{}
	syn := f.Syntax()
	info := e.ppkg.TypesInfo
	ast.Inspect(syn, func(n ast.Node) bool {
		switch l := n.(type) {
		case *ast.ForStmt:
			t := "for"
			if l.Cond != nil {
				t = types.ExprString(l.Cond)
			}
			cnt[t]++
		case *ast.RangeStmt:
			t := "range " + types.ExprString(l.X)
			cnt[t]++
			if ty := info.TypeOf(l.X); ty != nil {
				out = append(out, loopKeyT{t, cnt[t], ty})
			}
		case *ast.FuncLit:
			if n != syn {
				return false
			}
		}
		return true
	})
	return out
}
