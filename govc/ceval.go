package main

// Evaluation of contract expressions to SMT terms in a given state.

import (
	"fmt"
	"go/types"
	"strings"
)

type cval struct {
	t     Term
	typ   types.Type // Go type; nil for ghost values
	sort  string     // sort when typ == nil
	atRef bool       // typ is a struct type and t is the reference where it is stored
	mapOf *types.Map
	lv    *LV // the value is the address of this location (pointer to a slice element, ...)
	src   string // "T.f" when the value was loaded from that field (provenance of call arguments)
}

type cenv struct {
	vc     *VC
	vars   map[string]cval
	heap   *Heap
	old    *Heap
	result []cval
	resNm  []string
	allocOld Term
	err    error
	iter   Term // visited-set of the enclosing map range loop
	sides  *[]Term // heap well-formedness facts about pointers read from the heap (ref <= alloc)
	asGoal bool
}

// wf records that a pointer-like value read from the heap denotes an allocated object.
func (ce *cenv) wf(v cval) cval {
	if ce.sides == nil || v.typ == nil || ce.heap == nil {
		return v
	}
	switch v.typ.Underlying().(type) {
	case *types.Pointer, *types.Map:
		*ce.sides = append(*ce.sides, Le(v.t, ce.heap.alloc))
	case *types.Slice:
		*ce.sides = append(*ce.sides, Le(sx("s_arr", v.t), ce.heap.alloc))
	}
	return v
}

// evalWithSides evaluates an expression (as part of a goal) and returns the well-formedness facts
// separately, so that the caller can put them in front of the whole goal.
func (ce *cenv) evalWithSides(x *CExpr) (cval, Term) {
	var sides []Term
	ce.sides = &sides
	ce.asGoal = true
	r := ce.eval(x)
	ce.sides = nil
	return r, And(sides...)
}

// evalTop evaluates a clause; asGoal says whether it is to be proved (facts weaken it) or assumed.
func (ce *cenv) evalTop(x *CExpr, asGoal bool) cval {
	var sides []Term
	ce.sides = &sides
	ce.asGoal = asGoal
	r := ce.eval(x)
	ce.sides = nil
	if len(sides) == 0 {
		return r
	}
	if asGoal {
		r.t = Imp(And(sides...), r.t)
	} else {
		r.t = And(And(sides...), r.t)
	}
	return r
}

func (ce *cenv) fail(f string, a ...interface{}) cval {
	if ce.err == nil {
		ce.err = fmt.Errorf(f, a...)
	}
	return cval{t: "false", sort: SBool}
}

func (ce *cenv) sortOfVal(v cval) string {
	if v.typ != nil {
		if v.atRef {
			return SInt
		}
		return ce.vc.e.sortOf(v.typ)
	}
	return v.sort
}

func ghostSort(e *Engine, ty string) (string, types.Type) {
	switch strings.TrimSpace(ty) {
	case "", "int", "ref":
		return SInt, types.Typ[types.Int]
	case "bool":
		return SBool, types.Typ[types.Bool]
	case "string":
		return SStr, types.Typ[types.String]
	case "iface":
		return SIface, nil
	case "[]*Error":
		return SSlice, nil
	case "[]byte":
		return SSlice, types.NewSlice(types.Typ[types.Byte])
	case "[]string":
		return SSlice, types.NewSlice(types.Typ[types.String])
	case "set<ref>", "set<int>":
		return "(Array Int Bool)", nil
	case "set<string>":
		return "(Array Str Bool)", nil
	case "map<ref,int>", "map<int,int>":
		return "(Array Int Int)", nil
	}
	// a Go type of the package: *T or T
	name := strings.TrimSpace(ty)
	ptr := false
	if strings.HasPrefix(name, "*") {
		ptr = true
		name = name[1:]
	}
	if obj := e.tpkg.Scope().Lookup(name); obj != nil {
		if tn, ok := obj.(*types.TypeName); ok {
			var t types.Type = tn.Type()
			if ptr {
				t = types.NewPointer(t)
			}
			return e.sortOf(t), t
		}
	}
	return SInt, types.Typ[types.Int]
}

func (ce *cenv) eval(x *CExpr) cval {
	vc := ce.vc
	switch x.Op {
	case "int":
		return cval{t: x.Name, typ: types.Typ[types.Int]}
	case "str":
		return cval{t: vc.strLit(x.Name), typ: types.Typ[types.String]}
	case "true", "false":
		return cval{t: x.Op, typ: types.Typ[types.Bool]}
	case "nil":
		return cval{t: "nil", sort: "nil"}
	case "result":
		if len(ce.result) == 0 {
			return ce.fail("'result' not available here")
		}
		return ce.result[0]
	case "id":
		if v, ok := ce.vars[x.Name]; ok {
			return v
		}
		for i, n := range ce.resNm {
			if n == x.Name && i < len(ce.result) {
				return ce.result[i]
			}
		}
		if strings.HasPrefix(x.Name, "result") && len(x.Name) == 7 {
			i := int(x.Name[6] - '0')
			if i < len(ce.result) {
				return ce.result[i]
			}
		}
		// ghost global
		if gty, ok := vc.e.cs.Ghosts[x.Name]; ok {
			s, ty := ghostSort(vc.e, gty)
			name := "GH:" + x.Name
			return cval{t: vc.arrIn(ce.heap, name, s), typ: ty, sort: s}
		}
		// package-level constant or variable
		if obj := vc.e.tpkg.Scope().Lookup(x.Name); obj != nil {
			switch o := obj.(type) {
			case *types.Const:
				c := vc.constFromTypes(o)
				return cval{t: c, typ: o.Type()}
			case *types.Var:
				if g, ok := vc.e.pkg.Members[x.Name]; ok {
					_ = g
					n := "GV:" + x.Name
					return cval{t: vc.arrIn(ce.heap, n, vc.e.sortOf(o.Type())), typ: o.Type()}
				}
			}
		}
		return ce.fail("unknown identifier %q", x.Name)
	case "old":
		if ce.old == nil {
			return ce.fail("old() not available here")
		}
		sub := *ce
		sub.heap = ce.old
		r := sub.eval(x.Args[0])
		if sub.err != nil && ce.err == nil {
			ce.err = sub.err
		}
		return r
	case "sel":
		// qualified constant like yaml.MappingNode
		if id := x.Args[0]; id.Op == "id" {
			if _, isVar := ce.vars[id.Name]; !isVar {
				for _, imp := range vc.e.tpkg.Imports() {
					if imp.Name() == id.Name {
						if obj := imp.Scope().Lookup(x.Name); obj != nil {
							if c, ok := obj.(*types.Const); ok {
								return cval{t: vc.constFromTypes(c), typ: c.Type()}
							}
						}
						return ce.fail("unknown %s.%s", id.Name, x.Name)
					}
				}
			}
		}
		base := ce.eval(x.Args[0])
		return ce.selField(base, x.Name)
	case "idx":
		base := ce.eval(x.Args[0])
		idx := ce.eval(x.Args[1])
		return ce.index(base, idx)
	case "slice":
		base := ce.eval(x.Args[0])
		lo := ce.eval(x.Args[1])
		hi := ce.eval(x.Args[2])
		if base.typ != nil {
			if b, ok := base.typ.Underlying().(*types.Basic); ok && b.Info()&types.IsString != 0 {
				return cval{t: sx("ssub", base.t, lo.t, hi.t), typ: base.typ}
			}
		}
		return ce.fail("slicing of non-string in contracts")
	case "un":
		a := ce.eval(x.Args[0])
		if x.Name == "!" {
			return cval{t: Not(a.t), typ: types.Typ[types.Bool]}
		}
		return cval{t: sx("-", a.t), typ: a.typ}
	case "bin":
		return ce.binop(x)
	case "forall", "exists":
		sub := *ce
		sub.vars = map[string]cval{}
		for k, v := range ce.vars {
			sub.vars[k] = v
		}
		var bs []string
		for _, bv := range x.Vars {
			s, ty := ghostSort(vc.e, bv.Type)
			n := sym("q_" + bv.Name)
			bs = append(bs, "("+n+" "+s+")")
			sub.vars[bv.Name] = cval{t: n, typ: ty, sort: s}
		}
		var qsides []Term
		if ce.sides != nil {
			sub.sides = &qsides
		}
		body := sub.eval(x.Args[0])
		if sub.err != nil && ce.err == nil {
			ce.err = sub.err
		}
		bt := body.t
		if len(qsides) > 0 {
			// well-formedness of the pointers read under the binder is a fact of every heap
			switch {
			case x.Op == "forall" && ce.asGoal:
				bt = Imp(And(qsides...), bt)
			case x.Op == "forall":
				bt = And(And(qsides...), bt)
			case ce.asGoal:
				// existential goal: the witness is an allocated object anyway
			default:
				bt = And(And(qsides...), bt)
			}
		}
		return cval{t: "(" + x.Op + " (" + strings.Join(bs, " ") + ") " + bt + ")", typ: types.Typ[types.Bool]}
	case "call":
		return ce.call(x)
	}
	return ce.fail("cannot evaluate %s", x.String())
}

func (vc *VC) constFromTypes(c *types.Const) Term {
	v := c.Val()
	switch b := c.Type().Underlying().(type) {
	case *types.Basic:
		switch {
		case b.Info()&types.IsString != 0:
			s := v.ExactString()
			// ExactString quotes strings
			var out string
			fmt.Sscanf(s, "%q", &out)
			return vc.strLit(out)
		case b.Info()&types.IsBoolean != 0:
			return v.ExactString()
		default:
			s := v.ExactString()
			if strings.HasPrefix(s, "-") {
				return "(- " + s[1:] + ")"
			}
			return s
		}
	}
	return "0"
}

func (ce *cenv) selField(base cval, name string) cval {
	vc := ce.vc
	if base.typ == nil {
		return ce.fail("field %s of ghost value", name)
	}
	obj, path, _ := types.LookupFieldOrMethod(base.typ, true, vc.e.tpkg, name)
	fv, ok := obj.(*types.Var)
	if !ok || len(path) == 0 {
		return ce.fail("no field %s in %s", name, base.typ)
	}
	_ = fv
	cur := base
	for _, idx := range path {
		if cur.lv != nil && cur.lv.arr != "" {
			// field of a struct stored by value at a resolved location
			st := deref(cur.typ)
			sst, ok := st.Underlying().(*types.Struct)
			if !ok {
				return ce.fail("selecting field of non-struct %s", st)
			}
			ssort := vc.e.structSort(st)
			nl := &LV{arr: cur.lv.arr, sort: cur.lv.sort, idx: cur.lv.idx, typ: sst.Field(idx).Type()}
			nl.path = append(append([]lvStep{}, cur.lv.path...), lvStep{vc.e.structs[ssort], idx})
			cur = cval{t: vc.readLVIn(ce.heap, nl), typ: sst.Field(idx).Type()}
			continue
		}
		t := cur.typ
		var ref Term
		isRef := false
		if p, ok := t.Underlying().(*types.Pointer); ok {
			t = p.Elem()
			ref = cur.t
			isRef = true
		} else if cur.atRef {
			ref = cur.t
			isRef = true
		}
		st, ok := t.Underlying().(*types.Struct)
		if !ok {
			return ce.fail("selecting field of non-struct %s", t)
		}
		f := st.Field(idx)
		if isRef {
			if isStruct(f.Type()) {
				cur = cval{t: vc.embPtr(t, idx, ref), typ: f.Type(), atRef: true}
			} else {
				n, srt, _ := vc.e.fieldArr(t, idx)
				cur = ce.wf(cval{t: Sel(vc.arrIn(ce.heap, n, srt), ref), typ: f.Type()})
			}
		} else {
			s := vc.e.structSort(t)
			si := vc.e.structs[s]
			cur = cval{t: sx(si.accs[idx], cur.t), typ: f.Type()}
		}
	}
	return cur
}

func (ce *cenv) index(base, idx cval) cval {
	vc := ce.vc
	if base.typ == nil {
		// ghost set / map keyed by object identity
		return cval{t: Sel(base.t, ce.refOf(idx)), sort: SBool, typ: types.Typ[types.Bool]}
	}
	switch u := base.typ.Underlying().(type) {
	case *types.Slice:
		n, srt := vc.e.elemArr(u.Elem())
		a := vc.arrIn(ce.heap, n, srt)
		return ce.wf(cval{t: vc.eltTerm(u.Elem(), a, base.t, idx.t), typ: u.Elem()})
	case *types.Basic:
		if u.Info()&types.IsString != 0 {
			return cval{t: sx("sat", base.t, idx.t), typ: types.Typ[types.Int]}
		}
	case *types.Map:
		_, v, _, vs := vc.e.mapArrs(u)
		return ce.wf(cval{t: Sel(Sel(vc.arrIn(ce.heap, v, vs), base.t), ce.coerce(idx, u.Key()).t), typ: u.Elem()})
	}
	return ce.fail("cannot index %s", base.typ)
}

func (ce *cenv) coerce(v cval, t types.Type) cval {
	if v.sort == "nil" {
		return cval{t: ce.vc.e.zeroOf(t), typ: t}
	}
	return v
}

func (ce *cenv) binop(x *CExpr) cval {
	boolT := types.Typ[types.Bool]
	switch x.Name {
	case "&&":
		a := ce.eval(x.Args[0])
		if a.t == "false" {
			return cval{t: "false", typ: boolT}
		}
		b := ce.eval(x.Args[1])
		return cval{t: And(a.t, b.t), typ: boolT}
	case "||":
		a, b := ce.eval(x.Args[0]), ce.eval(x.Args[1])
		return cval{t: Or(a.t, b.t), typ: boolT}
	case "==>":
		a := ce.eval(x.Args[0])
		if a.t == "false" {
			// statically false antecedent: the consequent need not even be well-scoped here
			return cval{t: "true", typ: boolT}
		}
		b := ce.eval(x.Args[1])
		return cval{t: Imp(a.t, b.t), typ: boolT}
	case "<==>":
		a, b := ce.eval(x.Args[0]), ce.eval(x.Args[1])
		return cval{t: Eq(a.t, b.t), typ: boolT}
	}
	a, b := ce.eval(x.Args[0]), ce.eval(x.Args[1])
	switch x.Name {
	case "==", "!=":
		var t Term
		switch {
		case b.sort == "nil" && a.sort == "nil":
			t = "true"
		case b.sort == "nil":
			t = ce.nilTest(a)
		case a.sort == "nil":
			t = ce.nilTest(b)
		default:
			at, bt := a.t, b.t
			if a.atRef && a.typ != nil {
				at = ce.vc.structAt(ce.heap, a.t, a.typ)
			}
			if b.atRef && b.typ != nil {
				bt = ce.vc.structAt(ce.heap, b.t, b.typ)
			}
			t = Eq(at, bt)
			if ce.vc.litTerms[at] && ce.vc.litTerms[bt] && at != bt {
				t = "false" // two different string literals
			}
		}
		if x.Name == "!=" {
			t = Not(t)
		}
		return cval{t: t, typ: boolT}
	case "<", "<=", ">", ">=":
		if a.typ != nil {
			if bt, ok := a.typ.Underlying().(*types.Basic); ok && bt.Info()&types.IsString != 0 {
				switch x.Name {
				case "<":
					return cval{t: sx("str_lt", a.t, b.t), typ: boolT}
				case ">":
					return cval{t: sx("str_lt", b.t, a.t), typ: boolT}
				case "<=":
					return cval{t: Not(sx("str_lt", b.t, a.t)), typ: boolT}
				case ">=":
					return cval{t: Not(sx("str_lt", a.t, b.t)), typ: boolT}
				}
			}
		}
		return cval{t: sx(x.Name, a.t, b.t), typ: boolT}
	case "+":
		if a.typ != nil {
			if bt, ok := a.typ.Underlying().(*types.Basic); ok && bt.Info()&types.IsString != 0 {
				return cval{t: sx("sconcat", a.t, b.t), typ: a.typ}
			}
		}
		return cval{t: Add(a.t, b.t), typ: a.typ}
	case "-":
		return cval{t: Sub(a.t, b.t), typ: a.typ}
	case "*":
		return cval{t: sx("*", a.t, b.t), typ: a.typ}
	case "/":
		return cval{t: sx("go_div", a.t, b.t), typ: a.typ}
	case "%":
		return cval{t: sx("-", a.t, sx("*", b.t, sx("go_div", a.t, b.t))), typ: a.typ}
	}
	return ce.fail("unknown operator %s", x.Name)
}

func (ce *cenv) nilTest(a cval) Term {
	if a.typ == nil {
		return Eq(a.t, "0")
	}
	return ce.vc.isNil(a.t, a.typ)
}

func (ce *cenv) call(x *CExpr) cval {
	vc := ce.vc
	boolT := types.Typ[types.Bool]
	fn := x.Args[0]
	args := x.Args[1:]
	// method-like ghost calls: m.has(k)
	if fn.Op == "sel" {
		recv := ce.eval(fn.Args[0])
		switch fn.Name {
		case "has":
			if len(args) != 1 {
				return ce.fail("has() needs one argument")
			}
			k := ce.eval(args[0])
			if recv.typ != nil {
				if mt, ok := recv.typ.Underlying().(*types.Map); ok {
					d, _, ds, _ := vc.e.mapArrs(mt)
					// a nil map has no keys
					return cval{t: And(Ne(recv.t, "0"), Sel(Sel(vc.arrIn(ce.heap, d, ds), recv.t), k.t)), typ: boolT}
				}
			}
			return cval{t: Sel(recv.t, k.t), typ: boolT}
		}
		return ce.fail("unknown method %s in contract", fn.Name)
	}
	if fn.Op != "id" {
		return ce.fail("unsupported call in contract")
	}
	ev := func(i int) cval {
		if i >= len(args) {
			ce.fail("%s: missing argument", fn.Name)
			return cval{t: "0"}
		}
		return ce.eval(args[i])
	}
	switch fn.Name {
	case "len":
		a := ev(0)
		if a.typ == nil {
			return ce.fail("len of ghost value")
		}
		switch u := a.typ.Underlying().(type) {
		case *types.Slice:
			return cval{t: sx("s_len", a.t), typ: types.Typ[types.Int]}
		case *types.Basic:
			return cval{t: sx("slen", a.t), typ: types.Typ[types.Int]}
		case *types.Map:
			return cval{t: vc.mapLen(ce.heap, a.t, u), typ: types.Typ[types.Int]}
		}
		return ce.fail("len of %s", a.typ)
	case "cap":
		a := ev(0)
		return cval{t: sx("s_cap", a.t), typ: types.Typ[types.Int]}
	case "folded", "nlfree":
		a := ev(0)
		return cval{t: sx(fn.Name, a.t), typ: boolT}
	case "lower":
		a := ev(0)
		return cval{t: sx("lower", a.t), typ: types.Typ[types.String]}
	case "bnl":
		// bnl(b): the text accumulated in the builder b (a *strings.Builder, or a Builder variable / field)
		// has no line break
		a := ev(0)
		if a.typ == nil || !(a.atRef || isPtrType(a.typ)) {
			return ce.fail("bnl needs a builder variable, field or pointer")
		}
		return cval{t: Not(Sel(vc.arrIn(ce.heap, builderArr, builderSort), a.t)), typ: boolT}
	case "sameorigin", "disjoint":
		// sameorigin(a, b): the slices a and b start at the same element of the same backing array (one is a
		// prefix of the other or an in-place extension of it); disjoint(a, b): different backing arrays
		a, b := ev(0), ev(1)
		if name := fn.Name; name == "disjoint" {
			return cval{t: Ne(sx("s_arr", a.t), sx("s_arr", b.t)), typ: boolT}
		}
		return cval{t: And(Eq(sx("s_arr", a.t), sx("s_arr", b.t)), Eq(sx("s_off", a.t), sx("s_off", b.t))), typ: boolT}
	case "blen":
		// blen(b): the number of bytes accumulated in the builder b
		a := ev(0)
		if a.typ == nil || !(a.atRef || isPtrType(a.typ)) {
			return ce.fail("blen needs a builder variable, field or pointer")
		}
		return cval{t: Sel(vc.arrIn(ce.heap, builderLenArr, builderLenSort), a.t), typ: types.Typ[types.Int]}
	case "errtext":
		// the text of an error value (what its Error method returns)
		a := ev(0)
		t := a.t
		if a.sort == "nil" {
			t = "nil_iface"
		}
		return cval{t: sx("errtext", t), typ: types.Typ[types.String]}
	case "shared":
		a := ev(0)
		return cval{t: sx("shared", ce.refOf(a)), typ: boolT}
	case "fresh":
		a := ev(0)
		if ce.allocOld == "" {
			return ce.fail("fresh() not available here")
		}
		return cval{t: Gt(ce.refOf(a), ce.allocOld), typ: boolT}
	case "istype":
		a := ev(0)
		if len(args) < 2 || args[1].Op != "str" {
			return ce.fail("istype(e, \"T\")")
		}
		ty := vc.e.lookupType(args[1].Name)
		if ty == nil {
			return ce.fail("unknown type %s", args[1].Name)
		}
		if a.typ != nil && !types.IsInterface(a.typ) {
			// a name that already denotes the value narrowed by a type switch
			if types.Identical(a.typ, ty) {
				return cval{t: "true", typ: boolT}
			}
			return cval{t: "false", typ: boolT}
		}
		return cval{t: Eq(sx("i_tag", a.t), IntLit(int64(vc.e.tagOf(ty)))), typ: boolT}
	case "keys_card":
		// keys_card(m1, m2): ground instance of the finite-map lemma
		//   keys(m1) subset keys(m2) and len(m1) == len(m2)  ==>  keys(m2) subset keys(m1)
		// (trusted mathematics about finite maps; listed in the evidence)
		a, b := ev(0), ev(1)
		if a.typ == nil || b.typ == nil {
			return ce.fail("keys_card needs two maps")
		}
		mt, ok := a.typ.Underlying().(*types.Map)
		if !ok {
			return ce.fail("keys_card needs two maps")
		}
		d, _, ds, _ := vc.e.mapArrs(mt)
		D := vc.arrIn(ce.heap, d, ds)
		ks := vc.e.sortOf(mt.Key())
		fn := sym("ksub:" + vc.e.typeName(a.typ))
		vc.declareFun(fn, []string{"Int", "Int"}, "Bool")
		var fs []Term
		for _, pr := range [][2]Term{{a.t, b.t}, {b.t, a.t}} {
			w := vc.fresh("kwit", ks)
			sub := sx(fn, pr[0], pr[1])
			fs = append(fs, Imp(sub, fmt.Sprintf("(forall ((k %s)) (! (=> (select (select %s %s) k) (select (select %s %s) k)) :pattern ((select (select %s %s) k))))", ks, D, pr[0], D, pr[1], D, pr[0])))
			fs = append(fs, Imp(Not(sub), And(Sel(Sel(D, pr[0]), w), Not(Sel(Sel(D, pr[1]), w)))))
			fs = append(fs, Imp(And(sub, Eq(vc.mapLen(ce.heap, pr[0], mt), vc.mapLen(ce.heap, pr[1], mt))), sx(fn, pr[1], pr[0])))
		}
		// equal key sets have equal length
		fs = append(fs, Imp(And(sx(fn, a.t, b.t), sx(fn, b.t, a.t)), Eq(vc.mapLen(ce.heap, a.t, mt), vc.mapLen(ce.heap, b.t, mt))))
		vc.usedTrusted["finite-map lemmas keys_card (subset + equal length => equal key sets; equal key sets => equal length)"] = true
		return cval{t: And(fs...), typ: boolT}
	case "scanremaining", "scanpos":
		// abstract state of a text/scanner.Scanner: number of runes left / consumed
		a := ev(0)
		vc.declareFun("sc_len", []string{"Int"}, "Int")
		ref := ce.refOf(a)
		src := Sel(vc.arrIn(ce.heap, "SC:src", "(Array Int Int)"), ref)
		pos := Sel(vc.arrIn(ce.heap, "SC:pos", "(Array Int Int)"), ref)
		if fn.Name == "scanpos" {
			return cval{t: pos, typ: types.Typ[types.Int]}
		}
		return cval{t: Sub(sx("sc_len", src), pos), typ: types.Typ[types.Int]}
	case "from":
		// from(x, "T.f"): the value was read from field f of a T (syntactic provenance, no aliasing involved)
		a := ev(0)
		if len(args) < 2 || args[1].Op != "str" {
			return ce.fail("from(x, \"T.f\")")
		}
		if a.src == args[1].Name {
			return cval{t: "true", typ: boolT}
		}
		return cval{t: "false", typ: boolT}
	case "iface":
		// iface(p): the pointer p boxed as an interface value
		a := ev(0)
		if a.typ == nil {
			return ce.fail("iface of ghost value")
		}
		return cval{t: sx("mk_iface", IntLit(int64(vc.e.tagOf(a.typ))), vc.box(a.t, a.typ)), sort: SIface, typ: nil}
	case "dyn":
		// dyn(e, "T"): the value of interface e seen as concrete (pointer) type T
		a := ev(0)
		if len(args) < 2 || args[1].Op != "str" {
			return ce.fail("dyn(e, \"T\")")
		}
		ty := vc.e.lookupType(args[1].Name)
		if ty == nil {
			return ce.fail("unknown type %s", args[1].Name)
		}
		if a.typ != nil && !types.IsInterface(a.typ) {
			return a
		}
		return cval{t: vc.unbox(sx("i_val", a.t), ty), typ: ty}
	case "visited":
		// visited(k): key k of the map ranged over has been visited by the enclosing range loop
		if ce.iter == "" {
			return ce.fail("visited() only inside invariants of map range loops")
		}
		k := ev(0)
		return cval{t: Sel(ce.iter, k.t), typ: boolT}
	}
	if sf, ok := vc.e.cs.Specs[fn.Name]; ok {
		var as []Term
		var sorts []string
		for i, p := range sf.Params {
			a := ev(i)
			s, _ := ghostSort(vc.e, p.Type)
			sorts = append(sorts, s)
			as = append(as, ce.coerceSort(a, s))
		}
		rs, rt := ghostSort(vc.e, sf.Ret)
		name := sym("spec:" + sf.Name)
		vc.declareFun(name, sorts, rs)
		if len(as) == 0 {
			return cval{t: name, typ: rt, sort: rs}
		}
		if sf.Name == "hasprefix" && len(as) == 2 {
			// what strings.HasPrefix guarantees, also where the contract (not a call) introduces the term
			vc.fact(Imp(sx(name, as...), Ge(sx("slen", as[0]), sx("slen", as[1]))))
		}
		return cval{t: sx(name, as...), typ: rt, sort: rs}
	}
	return ce.fail("unknown function %s in contract", fn.Name)
}

func (ce *cenv) coerceSort(a cval, s string) Term {
	if a.sort == "nil" {
		switch s {
		case SSlice:
			return "nil_slice"
		case SIface:
			return "nil_iface"
		}
		return "0"
	}
	return a.t
}

func (ce *cenv) refOf(a cval) Term {
	if a.typ != nil {
		switch a.typ.Underlying().(type) {
		case *types.Slice:
			return sx("s_arr", a.t)
		case *types.Interface:
			return sx("i_val", a.t)
		}
	}
	return a.t
}

// lookupType resolves "T", "*T", "pkg.T" to a types.Type.
func (e *Engine) lookupType(name string) types.Type {
	ptr := false
	if strings.HasPrefix(name, "*") {
		ptr = true
		name = name[1:]
	}
	var obj types.Object
	if i := strings.Index(name, "."); i > 0 {
		for _, imp := range e.tpkg.Imports() {
			if imp.Name() == name[:i] {
				obj = imp.Scope().Lookup(name[i+1:])
			}
		}
	} else {
		obj = e.tpkg.Scope().Lookup(name)
		if obj == nil {
			obj = types.Universe.Lookup(name)
		}
	}
	tn, ok := obj.(*types.TypeName)
	if !ok {
		return nil
	}
	var t types.Type = tn.Type()
	if ptr {
		t = types.NewPointer(t)
	}
	return t
}

func isPtrType(t types.Type) bool {
	_, ok := t.Underlying().(*types.Pointer)
	return ok
}
