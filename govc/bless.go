package main

import (
	"flag"
	"fmt"
	"os"
	"path/filepath"
	"strings"
	"time"
)

// poisoning kinds: when such an obligation is not discharged, everything verified after it in the
// same function was verified under an unproved assumption and is not entered into a ledger.
func poisons(kind string) bool {
	switch kind {
	case "inv-entry", "inv-preserved", "requires", "ensures", "at-call", "at-store", "callback", "at-return", "body-calls", "body-stores", "forbid-call", "map-order", "loop-complete", "fresh-writes", "decreases",
		"folded-key", "folded-store", "folded-elems", "nonnil-store", "nonnil-init", "nonnil-append", "nonnil-elems", "typed-nil", "nlfree-store", "nlfree-msg", "shared-write", "immutable-store":
		return true
	}
	return false
}

// cmdBless solves every obligation of the package once and writes the ledgers of the given properties.
func cmdBless(args []string) {
	fs := flag.NewFlagSet("bless", flag.ExitOnError)
	repo := fs.String("repo", "/repo", "repository")
	props := fs.String("props", "", "comma separated property ids")
	tmo := fs.Int("t", 2000, "per-obligation timeout (ms); ledger entries must discharge within it")
	fs.Parse(args)
	start := time.Now()
	e, err := loadEngine(*repo)
	if err != nil {
		fmt.Fprintln(os.Stderr, err)
		os.Exit(2)
	}
	vcs := generateAll(e)
	solveAllSel(vcs, nil, *tmo)
	var again []*Obligation
	owner := map[*Obligation]*VC{}
	for _, vc := range vcs {
		if vc.Vacuous {
			fmt.Fprintf(os.Stderr, "contradictory entry assumptions in %s\n", e.fname(vc.fn))
			os.Exit(2)
		}
		for _, ob := range vc.obls {
			if ob.Result != "unsat" {
				again = append(again, ob)
				owner[ob] = vc
			}
		}
	}
	parallelDo(len(again), func(i int) { owner[again[i]].retry(again[i], *tmo) })
	// poisoning
	conditional := map[*Obligation]string{}
	for _, vc := range vcs {
		poison := ""
		for _, ob := range vc.obls {
			if ob.Result == "unsat" {
				if poison != "" {
					conditional[ob] = poison
				}
				continue
			}
			if poisons(ob.Kind) && !softKind(ob) && poison == "" {
				poison = ob.Name
			}
		}
	}
	vdir := verifDir()
	for _, prop := range strings.Split(*props, ",") {
		prop = strings.TrimSpace(prop)
		if prop == "" {
			continue
		}
		var obls []*Obligation
		for _, vc := range vcs {
			for _, ob := range vc.obls {
				if hasProp(ob, prop) {
					if why, cond := conditional[ob]; cond {
						c := *ob
						c.Result = "conditional on " + why
						obls = append(obls, &c)
					} else {
						obls = append(obls, ob)
					}
				}
			}
		}
		if len(obls) == 0 {
			fmt.Printf("%s: no obligations\n", prop)
			continue
		}
		writeLedger(e, filepath.Join(vdir, "ledger", prop+".json"), prop, obls, vcs)
	}
	fmt.Printf("bless: %d functions, %.1fs\n", len(vcs), time.Since(start).Seconds())
}
