package main

import (
	"fmt"
	"go/ast"
	"go/token"
	"go/types"
	"os"
	"sort"
	"strings"

	"golang.org/x/tools/go/packages"
	"golang.org/x/tools/go/ssa"
	"golang.org/x/tools/go/ssa/ssautil"
)

type Engine struct {
	diagFieldSet map[string]bool
	prog  *ssa.Program
	pkg   *ssa.Package
	tpkg  *types.Package
	fset  *token.FileSet
	files []*ast.File
	ppkg  *packages.Package

	structs     map[string]*structInfo
	structOrder []string
	anonStructs map[string]string

	cs    *Contracts
	funcs map[string]*ssa.Function // by RelString(pkg)
	order []*ssa.Function

	mods map[*ssa.Function]*ModSet

	tags    map[string]int // dynamic type tags for interfaces
	tagList []types.Type

	embKinds map[string]int
	implTagCache map[string][]int
	fnValues     map[*ssa.Function]bool
	boxedTypes   map[string]bool
	valueUse     map[*ssa.Function]bool
	pendingCalls func(*ssa.Function)

	repoDir string
}

const pkgPath = "github.com/rhysd/actionlint"

func loadEngine(repo string) (*Engine, error) {
	cfg := &packages.Config{
		Mode:       packages.LoadAllSyntax,
		Dir:        repo,
		BuildFlags: []string{"-tags=verif"},
		Env:        append(os.Environ(), "GOFLAGS=-mod=mod", "GOPROXY=off", "GOSUMDB=off", "GOTOOLCHAIN=local"),
	}
	pkgs, err := packages.Load(cfg, ".")
	if err != nil {
		return nil, err
	}
	if len(pkgs) != 1 {
		return nil, fmt.Errorf("expected 1 package, got %d", len(pkgs))
	}
	if len(pkgs[0].Errors) > 0 {
		return nil, fmt.Errorf("package errors: %v", pkgs[0].Errors)
	}
	prog, spkgs := ssautil.AllPackages(pkgs, ssa.GlobalDebug|ssa.InstantiateGenerics)
	prog.Build()
	e := &Engine{
		prog:        prog,
		pkg:         spkgs[0],
		tpkg:        pkgs[0].Types,
		fset:        pkgs[0].Fset,
		files:       pkgs[0].Syntax,
		ppkg:        pkgs[0],
		structs:     map[string]*structInfo{},
		anonStructs: map[string]string{},
		funcs:       map[string]*ssa.Function{},
		tags:        map[string]int{},
		embKinds:    map[string]int{},
		repoDir:     repo,
	}
	for f := range ssautil.AllFunctions(prog) {
		inPkg := f.Pkg == e.pkg && f.Synthetic == ""
		if o := f.Origin(); o != nil && o.Pkg == e.pkg && f.Blocks != nil {
			inPkg = true // instantiation of a generic function of the package
		}
		if inPkg && f.Blocks != nil {
			e.funcs[e.fname(f)] = f
			e.order = append(e.order, f)
		}
	}
	sort.Slice(e.order, func(i, j int) bool { return e.fname(e.order[i]) < e.fname(e.order[j]) })
	cs, err := loadContracts(repo)
	if err != nil {
		return nil, err
	}
	e.cs = cs
	e.addAvailabilityContract()
	for name, c := range cs.Funcs {
		if _, ok := e.funcs[name]; !ok && !strings.HasPrefix(name, "iface:") && !strings.HasPrefix(name, "lib:") {
			// contract for a function that does not exist (anymore)
			_ = c
		}
	}
	e.computeModSets()
	return e, nil
}

func (e *Engine) fname(f *ssa.Function) string {
	return f.RelString(e.tpkg)
}

func (e *Engine) posOf(p token.Pos) token.Position {
	return e.fset.Position(p)
}

func (e *Engine) fileOf(p token.Pos) *ast.File {
	for _, f := range e.files {
		if f.Pos() <= p && p <= f.End() {
			return f
		}
	}
	return nil
}

// tagOf returns the interface dynamic type tag of a concrete type.
func (e *Engine) tagOf(t types.Type) int {
	k := e.typeName(t)
	if n, ok := e.tags[k]; ok {
		return n
	}
	n := len(e.tags) + 1
	e.tags[k] = n
	e.tagList = append(e.tagList, t)
	return n
}

func (e *Engine) embKind(name string) int {
	if n, ok := e.embKinds[name]; ok {
		return n
	}
	n := len(e.embKinds) + 1
	e.embKinds[name] = n
	return n
}

// ghostMonotone: every effect on the ghost set assigns true, so the set only grows.
func (e *Engine) ghostMonotone(g string) bool {
	for _, c := range e.cs.Funcs {
		for _, ef := range c.Effects {
			if ef.Ghost == g && ef.Val.Op != "true" {
				return false
			}
		}
	}
	return true
}

// implTags: tags of the package types implementing an interface declared in the package.
func (e *Engine) implTags(t types.Type) []int {
	key := e.typeName(t)
	if v, ok := e.implTagCache[key]; ok {
		return v
	}
	iface, ok := t.Underlying().(*types.Interface)
	if !ok {
		return nil
	}
	var out []int
	var names []string
	for n := range e.pkg.Members {
		names = append(names, n)
	}
	sort.Strings(names)
	for _, n := range names {
		tn, ok := e.pkg.Members[n].(*ssa.Type)
		if !ok || types.IsInterface(tn.Type()) {
			continue
		}
		if types.Implements(tn.Type(), iface) {
			out = append(out, e.tagOf(tn.Type()))
		}
		if pt := types.NewPointer(tn.Type()); types.Implements(pt, iface) {
			// *T of a type T that implements the interface itself is a possible dynamic type only
			// if the package boxes a *T somewhere (closed world)
			if !types.Implements(tn.Type(), iface) || e.boxed()[e.typeName(pt)] {
				out = append(out, e.tagOf(pt))
			}
		}
	}
	if e.implTagCache == nil {
		e.implTagCache = map[string][]int{}
	}
	e.implTagCache[key] = out
	return out
}

// boxed: names of the types converted to an interface anywhere in the package.
func (e *Engine) boxed() map[string]bool {
	if e.boxedTypes != nil {
		return e.boxedTypes
	}
	e.boxedTypes = map[string]bool{}
	for _, f := range e.order {
		for _, b := range f.Blocks {
			for _, ins := range b.Instrs {
				if mi, ok := ins.(*ssa.MakeInterface); ok {
					e.boxedTypes[e.typeName(mi.X.Type())] = true
				}
			}
		}
	}
	return e.boxedTypes
}
