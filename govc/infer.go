package main

// Houdini-style inference of nullability contracts: parameters that are never nil, struct fields,
// slice elements and map values that never hold nil, pointer types never boxed as typed nil.
// The result is written to /repo/verif_contracts_auto.go; every surviving candidate is an ordinary
// contract that is re-verified on each run.

import (
	"flag"
	"fmt"
	"go/types"
	"os"
	"path/filepath"
	"sort"
	"strings"
	"time"

	"golang.org/x/tools/go/ssa"
)

func isPtrLike(t types.Type) bool {
	switch t.Underlying().(type) {
	case *types.Pointer, *types.Map, *types.Signature, *types.Interface:
		return true
	}
	return false
}

func cmdInfer(args []string) {
	fs := flag.NewFlagSet("infer", flag.ExitOnError)
	repo := fs.String("repo", "/repo", "repository")
	tmo := fs.Int("t", 3000, "per-check timeout ms")
	out := fs.String("o", "", "output file (default <repo>/verif_contracts_auto.go)")
	fs.Parse(args)
	if *out == "" {
		*out = filepath.Join(*repo, "verif_contracts_auto.go")
	}
	os.Remove(*out)
	e, err := loadEngine(*repo)
	if err != nil {
		fmt.Fprintln(os.Stderr, err)
		os.Exit(2)
	}
	cs := e.cs
	// candidates -------------------------------------------------------------------------
	type reqCand struct {
		fn, param string
		clause    *Clause
	}
	var reqs []*reqCand
	var enss []*reqCand
	for _, f := range e.order {
		name := e.fname(f)
		for _, p := range f.Params {
			if p.Name() == "" || p.Name() == "_" || !isPtrLike(p.Type()) {
				continue
			}
			txt := p.Name() + " != nil"
			ex, err := parseCExpr(txt)
			if err != nil {
				continue
			}
			con := cs.Funcs[name]
			if con == nil {
				con = &Contract{Fn: name}
				cs.Funcs[name] = con
			}
			dup := false
			for _, r := range con.Requires {
				if r.Text == txt {
					dup = true
				}
			}
			if dup {
				continue
			}
			cl := &Clause{Kind: "requires", Expr: ex, Text: txt, Auto: true}
			con.Requires = append(con.Requires, cl)
			reqs = append(reqs, &reqCand{name, p.Name(), cl})
		}
	}
	// ensures candidates: results that are never nil
	for _, f := range e.order {
		name := e.fname(f)
		res := f.Signature.Results()
		for i := 0; i < res.Len(); i++ {
			if !isPtrLike(res.At(i).Type()) {
				continue
			}
			if it, ok := res.At(i).Type().Underlying().(*types.Interface); ok && it.NumMethods() == 1 && it.Method(0).Name() == "Error" {
				continue // error results are nil on success
			}
			txt := "result != nil"
			if res.Len() > 1 {
				txt = fmt.Sprintf("result%d != nil", i)
			}
			ex, err := parseCExpr(txt)
			if err != nil {
				continue
			}
			con := cs.Funcs[name]
			if con == nil {
				con = &Contract{Fn: name}
				cs.Funcs[name] = con
			}
			dup := false
			for _, r := range con.Ensures {
				if r.Text == txt {
					dup = true
				}
			}
			if dup {
				continue
			}
			cl := &Clause{Kind: "ensures", Expr: ex, Text: txt, Auto: true}
			con.Ensures = append(con.Ensures, cl)
			enss = append(enss, &reqCand{name, txt, cl})
		}
	}
	fieldC, elemC, boxC := map[string]bool{}, map[string]bool{}, map[string]bool{}
	seenT := map[string]bool{}
	var addType func(t types.Type)
	addType = func(t types.Type) {
		k := e.typeName(t)
		if seenT[k] {
			return
		}
		seenT[k] = true
		switch u := t.Underlying().(type) {
		case *types.Slice:
			if isPtrLike(u.Elem()) {
				elemC[k] = true
			}
			addType(u.Elem())
		case *types.Map:
			if isPtrLike(u.Elem()) {
				elemC[k] = true
			}
			addType(u.Elem())
		case *types.Pointer:
			addType(u.Elem())
		case *types.Struct:
			if nt, ok := t.(*types.Named); ok && nt.Obj().Pkg() == e.tpkg {
				for i := 0; i < u.NumFields(); i++ {
					f := u.Field(i)
					if isPtrLike(f.Type()) {
						fieldC[k+"."+f.Name()] = true
					}
					addType(f.Type())
				}
			}
		}
	}
	for _, mem := range e.pkg.Members {
		if tn, ok := mem.(*ssa.Type); ok {
			addType(tn.Type())
			if _, isS := tn.Type().Underlying().(*types.Struct); isS {
				boxC[e.typeName(types.NewPointer(tn.Type()))] = true
			}
		}
	}
	for _, f := range e.order {
		for _, b := range f.Blocks {
			for _, ins := range b.Instrs {
				if v, ok := ins.(ssa.Value); ok {
					addType(v.Type())
				}
			}
		}
	}
	for k := range fieldC {
		if !cs.NonNilField[k] {
			cs.NonNilField[k] = true
		} else {
			delete(fieldC, k)
		}
	}
	for k := range elemC {
		if !cs.NonNilElem[k] {
			cs.NonNilElem[k] = true
		} else {
			delete(elemC, k)
		}
	}
	for k := range boxC {
		if !cs.NonNilBoxed[k] {
			cs.NonNilBoxed[k] = true
		} else {
			delete(boxC, k)
		}
	}
	fmt.Printf("candidates: %d requires, %d fields, %d elem types, %d boxed types\n", len(reqs), len(fieldC), len(elemC), len(boxC))

	sel := func(ob *Obligation) bool {
		switch ob.Kind {
		case "requires", "ensures", "nonnil-store", "nonnil-append", "nonnil-elems", "nonnil-init", "typed-nil":
			return true
		}
		return false
	}
	for iter := 1; ; iter++ {
		start := time.Now()
		var vcs []*VC
		for _, f := range e.order {
			vc := newVC(e, f, nil)
			func() {
				defer func() {
					if r := recover(); r != nil {
						vc.obls, vc.items = nil, nil
						fmt.Printf("translator panic in %s: %v\n", e.fname(f), r)
					}
				}()
				vc.Generate()
			}()
			vcs = append(vcs, vc)
		}
		solveAllSel(vcs, sel, *tmo)
		removed := 0
		for _, vc := range vcs {
			for _, ob := range vc.obls {
				if !sel(ob) || ob.Result == "unsat" {
					continue
				}
				if os.Getenv("GOVC_INFER_V") != "" {
					fmt.Printf("  drop[%d] %s %s (%s) detail=%s\n", iter, ob.Result, ob.Name, ob.Pos, ob.Detail)
				}
				switch ob.Kind {
				case "requires":
					// text: "<fn>: <param> != nil"
					i := strings.LastIndex(ob.Text, ": ")
					fn, txt := ob.Text[:i], ob.Text[i+2:]
					con := cs.Funcs[fn]
					if con == nil {
						continue
					}
					for j, r := range con.Requires {
						if r.Auto && r.Text == txt {
							con.Requires = append(con.Requires[:j], con.Requires[j+1:]...)
							removed++
							break
						}
					}
				case "ensures":
					con := cs.Funcs[ob.Fn]
					if con == nil {
						continue
					}
					for j, r := range con.Ensures {
						if r.Auto && r.Text == ob.Text {
							con.Ensures = append(con.Ensures[:j], con.Ensures[j+1:]...)
							removed++
							break
						}
					}
				case "nonnil-init":
					k := ob.Text[:strings.Index(ob.Text, " of ")]
					if fieldC[k] && cs.NonNilField[k] {
						delete(cs.NonNilField, k)
						removed++
					}
				case "typed-nil":
					k := ob.Text[:strings.Index(ob.Text, " boxed: ")]
					if boxC[k] && cs.NonNilBoxed[k] {
						delete(cs.NonNilBoxed, k)
						removed++
					}
				default:
					k := ob.Detail
					if k == "" {
						continue
					}
					if fieldC[k] && cs.NonNilField[k] {
						delete(cs.NonNilField, k)
						removed++
					}
					if elemC[k] && cs.NonNilElem[k] {
						delete(cs.NonNilElem, k)
						removed++
					}
				}
			}
		}
		fmt.Printf("iteration %d: removed %d candidates (%.1fs)\n", iter, removed, time.Since(start).Seconds())
		if removed == 0 {
			break
		}
	}
	// pruning ---------------------------------------------------------------------------------
	// An inferred contract that no proof needs only restricts future code: drop it.
	pstart := time.Now()
	solveOne := func(f *ssa.Function) map[string]bool {
		vc := newVC(e, f, nil)
		func() {
			defer func() {
				if r := recover(); r != nil {
					vc.obls, vc.items = nil, nil
				}
			}()
			vc.Generate()
		}()
		vc.SolveSel(nil, *tmo, false)
		d := map[string]bool{}
		for _, ob := range vc.obls {
			if ob.Result == "unsat" {
				d[ob.Name] = true
			}
		}
		return d
	}
	subset := func(a, b map[string]bool) bool {
		for k := range a {
			if !b[k] {
				return false
			}
		}
		return true
	}
	// callers
	callers := map[*ssa.Function][]*ssa.Function{}
	for _, f := range e.order {
		seen := map[*ssa.Function]bool{}
		for _, b := range f.Blocks {
			for _, ins := range b.Instrs {
				call, ok := ins.(ssa.CallInstruction)
				if !ok {
					continue
				}
				c := call.Common()
				var gs []*ssa.Function
				if c.IsInvoke() {
					gs = e.implementers(c.Value.Type(), c.Method)
				} else if g := c.StaticCallee(); g != nil {
					gs = []*ssa.Function{g}
				}
				for _, g := range gs {
					if !seen[g] {
						seen[g] = true
						callers[g] = append(callers[g], f)
					}
				}
			}
		}
	}
	prunedE, prunedR := 0, 0
	for _, r := range enss {
		con := cs.Funcs[r.fn]
		idx := -1
		for j, c := range con.Ensures {
			if c == r.clause {
				idx = j
			}
		}
		if idx < 0 {
			continue
		}
		f := e.funcs[r.fn]
		cl := callers[f]
		if len(cl) > 12 {
			continue // widely used helper: keep
		}
		base := map[string]bool{}
		for _, g := range cl {
			for k := range solveOne(g) {
				base[e.fname(g)+"|"+k] = true
			}
		}
		con.Ensures = append(append([]*Clause{}, con.Ensures[:idx]...), con.Ensures[idx+1:]...)
		now := map[string]bool{}
		for _, g := range cl {
			for k := range solveOne(g) {
				now[e.fname(g)+"|"+k] = true
			}
		}
		if subset(base, now) {
			prunedE++
		} else {
			con.Ensures = append(con.Ensures, r.clause)
		}
	}
	for _, f := range e.order {
		name := e.fname(f)
		con := cs.Funcs[name]
		if con == nil {
			continue
		}
		var autos []*Clause
		for _, c := range con.Requires {
			if c.Auto {
				for _, r := range reqs {
					if r.clause == c {
						autos = append(autos, c)
					}
				}
			}
		}
		if len(autos) == 0 {
			continue
		}
		base := solveOne(f)
		for _, c := range autos {
			var rest []*Clause
			for _, x := range con.Requires {
				if x != c {
					rest = append(rest, x)
				}
			}
			saved := con.Requires
			con.Requires = rest
			now := solveOne(f)
			// obligations on the removed clause itself do not exist in callers any more; compare body only
			if subset(base, now) {
				prunedR++
				base = now
			} else {
				con.Requires = saved
			}
		}
	}
	fmt.Printf("pruned %d ensures and %d requires that no proof needs (%.1fs)\n", prunedE, prunedR, time.Since(pstart).Seconds())

	// write result ---------------------------------------------------------------------------
	var b strings.Builder
	b.WriteString("//go:build verif\n\n// Code generated by `govc infer`; DO NOT EDIT.\n// Nullability contracts inferred by a Houdini pass and re-verified on every run.\n\npackage actionlint\n\n")
	var ks []string
	for k := range fieldC {
		if cs.NonNilField[k] {
			ks = append(ks, k)
		}
	}
	sort.Strings(ks)
	for _, k := range ks {
		fmt.Fprintf(&b, "//@ nonnil %s\n", k)
	}
	ks = nil
	for k := range elemC {
		if cs.NonNilElem[k] {
			ks = append(ks, k)
		}
	}
	sort.Strings(ks)
	for _, k := range ks {
		fmt.Fprintf(&b, "//@ nonnil_elems %s\n", k)
	}
	ks = nil
	for k := range boxC {
		if cs.NonNilBoxed[k] {
			ks = append(ks, k)
		}
	}
	sort.Strings(ks)
	for _, k := range ks {
		fmt.Fprintf(&b, "//@ nonnil_boxed %s\n", k)
	}
	b.WriteString("\n")
	byFn := map[string][]string{}
	for _, r := range reqs {
		con := cs.Funcs[r.fn]
		for _, c := range con.Requires {
			if c == r.clause {
				byFn[r.fn] = append(byFn[r.fn], "requires "+c.Text)
			}
		}
	}
	for _, r := range enss {
		con := cs.Funcs[r.fn]
		for _, c := range con.Ensures {
			if c == r.clause {
				byFn[r.fn] = append(byFn[r.fn], "ensures "+c.Text)
			}
		}
	}
	var fns []string
	for f := range byFn {
		fns = append(fns, f)
	}
	sort.Strings(fns)
	nreq := 0
	for _, f := range fns {
		fmt.Fprintf(&b, "//@ func %s\n", f)
		for _, t := range byFn[f] {
			fmt.Fprintf(&b, "//@   %s\n", t)
			nreq++
		}
	}
	if err := os.WriteFile(*out, []byte(b.String()), 0o644); err != nil {
		fmt.Fprintln(os.Stderr, err)
		os.Exit(2)
	}
	fmt.Printf("wrote %s: %d requires on %d functions\n", *out, nreq, len(fns))
}
