package main

// Houdini-style inference of nullability contracts: parameters that are never nil, struct fields,
// slice elements and map values that never hold nil, pointer types never boxed as typed nil.
// The result is written to /repo/verif_contracts_auto.go; every surviving candidate is an ordinary
// contract that is re-verified on each run.

import (
	"flag"
	"fmt"
	"go/ast"
	"go/types"
	"os"
	"regexp"
	"path/filepath"
	"sort"
	"strings"
	"time"

	"golang.org/x/tools/go/ssa"
)

func isPtrLike(t types.Type) bool {
	switch t.Underlying().(type) {
	case *types.Pointer, *types.Map, *types.Signature, *types.Interface:
		return true
	}
	return false
}

func isStringType(t types.Type) bool {
	b, ok := t.Underlying().(*types.Basic)
	return ok && b.Info()&types.IsString != 0
}

func cmdInfer(args []string) {
	fs := flag.NewFlagSet("infer", flag.ExitOnError)
	repo := fs.String("repo", "/repo", "repository")
	tmo := fs.Int("t", 3000, "per-check timeout ms")
	out := fs.String("o", "", "output file (default <repo>/verif_contracts_auto.go)")
	fs.Parse(args)
	if *out == "" {
		*out = filepath.Join(*repo, "verif_contracts_auto.go")
	}
	os.Remove(*out)
	e, err := loadEngine(*repo)
	if err != nil {
		fmt.Fprintln(os.Stderr, err)
		os.Exit(2)
	}
	cs := e.cs
	// candidates -------------------------------------------------------------------------
	type reqCand struct {
		fn, param string
		clause    *Clause
	}
	var reqs []*reqCand
	var enss []*reqCand
	for _, f := range e.order {
		name := e.fname(f)
		if e.usedAsValue(f) {
			// called through a function value (callback, template function, ...): no call site checks a
			// precondition, so none may be assumed
			continue
		}
		for _, p := range f.Params {
			if p.Name() == "" || p.Name() == "_" {
				continue
			}
			var txts []string
			if isStringType(p.Type()) {
				if len(cs.FoldedKeys) > 0 {
					txts = append(txts, "folded("+p.Name()+")")
				}
				if len(cs.NlfreeField) > 0 {
					txts = append(txts, "nlfree("+p.Name()+")")
				}
			} else if isPtrLike(p.Type()) {
				txts = append(txts, p.Name()+" != nil")
			}
			for _, txt := range txts {
				ex, err := parseCExpr(txt)
				if err != nil {
					continue
				}
				con := cs.Funcs[name]
				if con == nil {
					con = &Contract{Fn: name}
					cs.Funcs[name] = con
				}
				dup := false
				for _, r := range con.Requires {
					if r.Text == txt {
						dup = true
					}
				}
				if dup {
					continue
				}
				cl := &Clause{Kind: "requires", Expr: ex, Text: txt, Auto: true}
				con.Requires = append(con.Requires, cl)
				reqs = append(reqs, &reqCand{name, p.Name(), cl})
			}
		}
	}
	// ensures candidates: results that are never nil
	for _, f := range e.order {
		name := e.fname(f)
		res := f.Signature.Results()
		for i := 0; i < res.Len(); i++ {
			if isStringType(res.At(i).Type()) {
				for _, pred := range []string{"folded", "nlfree"} {
					if (pred == "folded" && len(cs.FoldedKeys) == 0) || (pred == "nlfree" && len(cs.NlfreeField) == 0) {
						continue
					}
					txt := pred + "(result)"
					if res.Len() > 1 {
						txt = fmt.Sprintf("%s(result%d)", pred, i)
					}
					ex, _ := parseCExpr(txt)
					con := cs.Funcs[name]
					if con == nil {
						con = &Contract{Fn: name}
						cs.Funcs[name] = con
					}
					dup := false
					for _, r := range con.Ensures {
						if r.Text == txt {
							dup = true
						}
					}
					if dup {
						continue
					}
					cl := &Clause{Kind: "ensures", Expr: ex, Text: txt, Auto: true}
					con.Ensures = append(con.Ensures, cl)
					enss = append(enss, &reqCand{name, txt, cl})
				}
				continue
			}
			if !isPtrLike(res.At(i).Type()) {
				continue
			}
			if it, ok := res.At(i).Type().Underlying().(*types.Interface); ok && it.NumMethods() == 1 && it.Method(0).Name() == "Error" {
				continue // error results are nil on success
			}
			txt := "result != nil"
			if res.Len() > 1 {
				txt = fmt.Sprintf("result%d != nil", i)
			}
			ex, err := parseCExpr(txt)
			if err != nil {
				continue
			}
			con := cs.Funcs[name]
			if con == nil {
				con = &Contract{Fn: name}
				cs.Funcs[name] = con
			}
			dup := false
			for _, r := range con.Ensures {
				if r.Text == txt {
					dup = true
				}
			}
			if dup {
				continue
			}
			cl := &Clause{Kind: "ensures", Expr: ex, Text: txt, Auto: true}
			con.Ensures = append(con.Ensures, cl)
			enss = append(enss, &reqCand{name, txt, cl})
			// a pointer result that is always a new object
			if _, isPtr := res.At(i).Type().Underlying().(*types.Pointer); isPtr && res.Len() == 1 {
				ftxt := "fresh(result)"
				fex, _ := parseCExpr(ftxt)
				fcl := &Clause{Kind: "ensures", Expr: fex, Text: ftxt, Auto: true}
				con.Ensures = append(con.Ensures, fcl)
				enss = append(enss, &reqCand{name, ftxt, fcl})
			}
		}
	}
	// user-declared candidate postconditions (auto_ensures <regexp>: <expr>)
	for _, ae := range cs.AutoEnsures {
		re, err := regexp.Compile(ae[0])
		if err != nil {
			fmt.Fprintf(os.Stderr, "bad auto_ensures regexp %q\n", ae[0])
			continue
		}
		for _, f := range e.order {
			name := e.fname(f)
			if !re.MatchString(name) {
				continue
			}
			ex, _ := parseCExpr(ae[1])
			okIds := true
			for _, id := range freeIds(ex) {
				found := false
				for _, p := range f.Params {
					if p.Name() == id {
						found = true
					}
				}
				if !found {
					okIds = false
				}
			}
			if !okIds {
				continue
			}
			con := cs.Funcs[name]
			if con == nil {
				con = &Contract{Fn: name}
				cs.Funcs[name] = con
			}
			dup := false
			for _, r := range con.Ensures {
				if r.Text == ae[1] {
					dup = true
				}
			}
			if dup {
				continue
			}
			cl := &Clause{Kind: "ensures", Expr: ex, Text: ae[1], Auto: true}
			con.Ensures = append(con.Ensures, cl)
			enss = append(enss, &reqCand{name, ae[1], cl})
		}
	}
	// candidate loop invariants (auto_invariant <regexp>: <expr>) for every loop of the matching functions
	type invCand struct {
		fn     string
		ls     *LoopSpec
		clause *Clause
	}
	var invs []*invCand
	for _, ai := range cs.AutoInvs {
		re, err := regexp.Compile(ai[0])
		if err != nil {
			continue
		}
		for _, f := range e.order {
			name := e.fname(f)
			if !re.MatchString(name) || f.Syntax() == nil {
				continue
			}
			ex, _ := parseCExpr(ai[1])
			okIds := true
			for _, id := range freeIds(ex) {
				found := false
				for _, p := range f.Params {
					if p.Name() == id {
						found = true
					}
				}
				if !found {
					okIds = false
				}
			}
			if !okIds {
				continue
			}
			for _, lk := range loopKeys(f) {
				con := cs.Funcs[name]
				if con == nil {
					con = &Contract{Fn: name}
					cs.Funcs[name] = con
				}
				var ls *LoopSpec
				for _, x := range con.Loops {
					if x.Key == lk.key && (x.Ordinal == lk.ord || (x.Ordinal <= 1 && lk.ord <= 1)) {
						ls = x
					}
				}
				if ls == nil {
					ls = &LoopSpec{Key: lk.key, Ordinal: lk.ord}
					con.Loops = append(con.Loops, ls)
				}
				dup := false
				for _, iv := range ls.Invariants {
					if iv.Text == ai[1] {
						dup = true
					}
				}
				if dup {
					continue
				}
				cl := &Clause{Kind: "invariant", Expr: ex, Text: ai[1], Auto: true}
				ls.Invariants = append(ls.Invariants, cl)
				invs = append(invs, &invCand{name, ls, cl})
			}
		}
	}
	fieldC, elemC, boxC := map[string]bool{}, map[string]bool{}, map[string]bool{}
	elemOK := map[string]bool{}
	foldC := map[string]bool{}
	seenT := map[string]bool{}
	var addType func(t types.Type)
	addType = func(t types.Type) {
		k := e.typeName(t)
		if seenT[k] {
			return
		}
		seenT[k] = true
		switch u := t.Underlying().(type) {
		case *types.Slice:
			if isPtrLike(u.Elem()) {
				elemC[k] = true
				elemOK[k] = e.ownType(u.Elem())
			}
			addType(u.Elem())
		case *types.Map:
			if isPtrLike(u.Elem()) {
				elemC[k] = true
				elemOK[k] = e.ownType(u.Elem())
			}
			addType(u.Elem())
		case *types.Pointer:
			addType(u.Elem())
		case *types.Struct:
			if nt, ok := t.(*types.Named); ok && nt.Obj().Pkg() == e.tpkg {
				for i := 0; i < u.NumFields(); i++ {
					f := u.Field(i)
					if isPtrLike(f.Type()) {
						fieldC[k+"."+f.Name()] = true
					}
					if isStringType(f.Type()) && len(cs.FoldedKeys) > 0 {
						foldC[k+"."+f.Name()] = true
					}
					addType(f.Type())
				}
			}
		}
	}
	for _, mem := range e.pkg.Members {
		if tn, ok := mem.(*ssa.Type); ok {
			addType(tn.Type())
			if _, isS := tn.Type().Underlying().(*types.Struct); isS {
				boxC[e.typeName(types.NewPointer(tn.Type()))] = true
			}
		}
	}
	for _, f := range e.order {
		for _, b := range f.Blocks {
			for _, ins := range b.Instrs {
				if v, ok := ins.(ssa.Value); ok {
					addType(v.Type())
				}
			}
		}
	}
	// soundness filters: a field fact is justified only when every writer is checked by govc.
	//  - structs decoded by reflection (yaml/json struct tags) are excluded;
	//  - nullability facts need an allocation site of the struct in the package (the nonnil-init check);
	//  - folded facts need at least one store in the package.
	allocd, stored, tagged := map[string]bool{}, map[string]bool{}, map[string]bool{}
	for _, mem := range e.pkg.Members {
		if tn, ok := mem.(*ssa.Type); ok {
			if st, ok := tn.Type().Underlying().(*types.Struct); ok {
				for i := 0; i < st.NumFields(); i++ {
					if st.Tag(i) != "" {
						tagged[e.typeName(tn.Type())] = true
					}
				}
			}
		}
	}
	for _, f := range e.order {
		for _, b := range f.Blocks {
			for _, ins := range b.Instrs {
				switch x := ins.(type) {
				case *ssa.Alloc:
					allocd[e.typeName(deref(x.Type()))] = true
				case *ssa.Store:
					if fa, ok := x.Addr.(*ssa.FieldAddr); ok {
						st := deref(fa.X.Type())
						stored[e.typeName(st)+"."+st.Underlying().(*types.Struct).Field(fa.Field).Name()] = true
					}
				}
			}
		}
	}
	typeOfKey := func(k string) string { return k[:strings.LastIndex(k, ".")] }
	for k := range fieldC {
		if tagged[typeOfKey(k)] || !allocd[typeOfKey(k)] {
			delete(fieldC, k)
		}
	}
	for k := range foldC {
		if tagged[typeOfKey(k)] || !stored[k] {
			delete(foldC, k)
		}
	}
	for k := range fieldC {
		if !cs.NonNilField[k] {
			cs.NonNilField[k] = true
		} else {
			delete(fieldC, k)
		}
	}
	for k := range foldC {
		if !cs.FoldedField[k] {
			cs.FoldedField[k] = true
		} else {
			delete(foldC, k)
		}
	}
	// element facts: only containers whose elements are values of the package's own types and that are
	// never filled by reflection (yaml / json decoding may store nil for `null`)
	decoded := e.decodedTypes()
	for k := range elemC {
		if decoded[k] || !elemOK[k] {
			delete(elemC, k)
		}
	}
	for k := range elemC {
		if !cs.NonNilElem[k] {
			cs.NonNilElem[k] = true
		} else {
			delete(elemC, k)
		}
	}
	for k := range boxC {
		if !cs.NonNilBoxed[k] {
			cs.NonNilBoxed[k] = true
		} else {
			delete(boxC, k)
		}
	}
	fmt.Printf("candidates: %d requires, %d fields, %d elem types, %d boxed types\n", len(reqs), len(fieldC), len(elemC), len(boxC))

	sel := func(ob *Obligation) bool {
		switch ob.Kind {
		case "folded-store":
			return foldC[ob.Detail]
		case "inv-entry", "inv-preserved":
			return true
		case "requires", "ensures", "nonnil-store", "nonnil-append", "nonnil-elems", "nonnil-init", "typed-nil":
			return true
		}
		return false
	}
	for iter := 1; ; iter++ {
		start := time.Now()
		var vcs []*VC
		for _, f := range e.order {
			vc := newVC(e, f, nil)
			func() {
				defer func() {
					if r := recover(); r != nil {
						vc.obls, vc.items = nil, nil
						fmt.Printf("translator panic in %s: %v\n", e.fname(f), r)
					}
				}()
				vc.Generate()
			}()
			vcs = append(vcs, vc)
		}
		solveAllSel(vcs, sel, *tmo)
		removed := 0
		for _, vc := range vcs {
			for _, ob := range vc.obls {
				if !sel(ob) || ob.Result == "unsat" {
					continue
				}
				if os.Getenv("GOVC_INFER_V") != "" {
					fmt.Printf("  drop[%d] %s %s (%s) detail=%s\n", iter, ob.Result, ob.Name, ob.Pos, ob.Detail)
				}
				switch ob.Kind {
				case "requires":
					// text: "<fn>: <param> != nil"
					i := strings.LastIndex(ob.Text, ": ")
					fn, txt := ob.Text[:i], ob.Text[i+2:]
					con := cs.Funcs[fn]
					if con == nil {
						continue
					}
					for j, r := range con.Requires {
						if r.Auto && r.Text == txt {
							con.Requires = append(con.Requires[:j], con.Requires[j+1:]...)
							removed++
							break
						}
					}
				case "ensures":
					con := cs.Funcs[ob.Fn]
					if con == nil {
						continue
					}
					for j, r := range con.Ensures {
						if r.Auto && r.Text == ob.Text {
							con.Ensures = append(con.Ensures[:j], con.Ensures[j+1:]...)
							removed++
							break
						}
					}
				case "inv-entry", "inv-preserved":
					// text: "loop <key>: <invariant>"
					for _, ic := range invs {
						if ic.fn != ob.Fn || ob.Text != "loop "+ic.ls.Key+": "+ic.clause.Text {
							continue
						}
						for j, iv := range ic.ls.Invariants {
							if iv == ic.clause {
								ic.ls.Invariants = append(ic.ls.Invariants[:j], ic.ls.Invariants[j+1:]...)
								removed++
								break
							}
						}
					}
				case "folded-store":
					if foldC[ob.Detail] && cs.FoldedField[ob.Detail] {
						delete(cs.FoldedField, ob.Detail)
						removed++
					}
				case "nonnil-init":
					k := ob.Text[:strings.Index(ob.Text, " of ")]
					if fieldC[k] && cs.NonNilField[k] {
						delete(cs.NonNilField, k)
						removed++
					}
				case "typed-nil":
					k := ob.Text[:strings.Index(ob.Text, " boxed: ")]
					if boxC[k] && cs.NonNilBoxed[k] {
						delete(cs.NonNilBoxed, k)
						removed++
					}
				default:
					k := ob.Detail
					if k == "" {
						continue
					}
					if fieldC[k] && cs.NonNilField[k] {
						delete(cs.NonNilField, k)
						removed++
					}
					if elemC[k] && cs.NonNilElem[k] {
						delete(cs.NonNilElem, k)
						removed++
					}
				}
			}
		}
		fmt.Printf("iteration %d: removed %d candidates (%.1fs)\n", iter, removed, time.Since(start).Seconds())
		if removed == 0 {
			break
		}
	}
	// pruning ---------------------------------------------------------------------------------
	// An inferred contract that no proof needs only restricts future code: drop it.
	pstart := time.Now()
	// baseline: everything that is discharged with all surviving candidates in place
	baseD := map[string]bool{}
	{
		vcs := generateAll(e)
		solveAllSel(vcs, nil, *tmo)
		for _, vc := range vcs {
			for _, ob := range vc.obls {
				if ob.Result == "unsat" {
					baseD[e.fname(vc.fn)+"|"+ob.Name] = true
				}
			}
		}
	}
	fmt.Printf("baseline for pruning: %d discharged obligations (%.1fs)\n", len(baseD), time.Since(pstart).Seconds())
	// solveFns re-verifies, for the given functions, the obligations of the baseline (in parallel)
	solveFns := func(fs []*ssa.Function) map[string]bool {
		var vcs []*VC
		for _, f := range fs {
			vc := newVC(e, f, nil)
			func() {
				defer func() {
					if r := recover(); r != nil {
						vc.obls, vc.items = nil, nil
					}
				}()
				vc.Generate()
			}()
			vcs = append(vcs, vc)
		}
		sel := func(ob *Obligation) bool { return baseD[ob.Fn+"|"+ob.Name] }
		solveAllSel(vcs, sel, 1500)
		d := map[string]bool{}
		for _, vc := range vcs {
			for _, ob := range vc.obls {
				if ob.Result == "unsat" {
					d[e.fname(vc.fn)+"|"+ob.Name] = true
				}
			}
		}
		return d
	}
	baseOf := func(fs []*ssa.Function) map[string]bool {
		d := map[string]bool{}
		for _, f := range fs {
			pre := e.fname(f) + "|"
			for k := range baseD {
				if strings.HasPrefix(k, pre) {
					d[k] = true
				}
			}
		}
		return d
	}
	subset := func(a, b map[string]bool) bool {
		for k := range a {
			if !b[k] {
				return false
			}
		}
		return true
	}
	// callers
	callers := map[*ssa.Function][]*ssa.Function{}
	for _, f := range e.order {
		seen := map[*ssa.Function]bool{}
		for _, b := range f.Blocks {
			for _, ins := range b.Instrs {
				call, ok := ins.(ssa.CallInstruction)
				if !ok {
					continue
				}
				c := call.Common()
				var gs []*ssa.Function
				if c.IsInvoke() {
					gs = e.implementers(c.Value.Type(), c.Method)
				} else if g := c.StaticCallee(); g != nil {
					gs = []*ssa.Function{g}
				}
				for _, g := range gs {
					if !seen[g] {
						seen[g] = true
						callers[g] = append(callers[g], f)
					}
				}
			}
		}
	}
	prunedE, prunedR := 0, 0
	for _, r := range enss {
		con := cs.Funcs[r.fn]
		idx := -1
		for j, c := range con.Ensures {
			if c == r.clause {
				idx = j
			}
		}
		if idx < 0 {
			continue
		}
		f := e.funcs[r.fn]
		cl := callers[f]
		if len(cl) > 12 {
			continue // widely used helper: keep
		}
		if !strings.HasSuffix(r.param, "!= nil") || !resultNilChecked(f, cl) {
			continue // only results that some caller tests for nil are worth weakening
		}
		base := baseOf(cl)
		con.Ensures = append(append([]*Clause{}, con.Ensures[:idx]...), con.Ensures[idx+1:]...)
		now := solveFns(cl)
		if subset(base, now) {
			prunedE++
		} else {
			con.Ensures = append(con.Ensures, r.clause)
		}
	}
	for _, f := range e.order {
		name := e.fname(f)
		con := cs.Funcs[name]
		if con == nil {
			continue
		}
		var autos []*Clause
		for _, c := range con.Requires {
			if c.Auto {
				for _, r := range reqs {
					if r.clause == c {
						autos = append(autos, c)
					}
				}
			}
		}
		if len(autos) == 0 {
			continue
		}
		base := baseOf([]*ssa.Function{f})
		for _, c := range autos {
			if !strings.HasSuffix(c.Text, "!= nil") || !paramNilChecked(f, strings.TrimSuffix(c.Text, " != nil")) {
				continue // only parameters the function itself tests for nil are worth weakening
			}
			var rest []*Clause
			for _, x := range con.Requires {
				if x != c {
					rest = append(rest, x)
				}
			}
			saved := con.Requires
			con.Requires = rest
			now := solveFns([]*ssa.Function{f})
			// obligations on the removed clause itself do not exist in callers any more; compare body only
			if subset(base, now) {
				prunedR++
			} else {
				con.Requires = saved
			}
		}
	}
	fmt.Printf("pruned %d ensures and %d requires that no proof needs (%.1fs)\n", prunedE, prunedR, time.Since(pstart).Seconds())

	// write result ---------------------------------------------------------------------------
	var b strings.Builder
	b.WriteString("//go:build verif\n\n// Code generated by `govc infer`; DO NOT EDIT.\n// Nullability contracts inferred by a Houdini pass and re-verified on every run.\n\npackage actionlint\n\n")
	var ks []string
	for k := range fieldC {
		if cs.NonNilField[k] {
			ks = append(ks, k)
		}
	}
	sort.Strings(ks)
	for _, k := range ks {
		fmt.Fprintf(&b, "//@ nonnil %s\n", k)
	}
	ks = nil
	for k := range foldC {
		if cs.FoldedField[k] {
			ks = append(ks, k)
		}
	}
	sort.Strings(ks)
	for _, k := range ks {
		fmt.Fprintf(&b, "//@ folded %s\n", k)
	}
	ks = nil
	for k := range elemC {
		if cs.NonNilElem[k] {
			ks = append(ks, k)
		}
	}
	sort.Strings(ks)
	for _, k := range ks {
		fmt.Fprintf(&b, "//@ nonnil_elems %s\n", k)
	}
	ks = nil
	for k := range boxC {
		if cs.NonNilBoxed[k] {
			ks = append(ks, k)
		}
	}
	sort.Strings(ks)
	for _, k := range ks {
		fmt.Fprintf(&b, "//@ nonnil_boxed %s\n", k)
	}
	b.WriteString("\n")
	byFn := map[string][]string{}
	for _, r := range reqs {
		con := cs.Funcs[r.fn]
		for _, c := range con.Requires {
			if c == r.clause {
				byFn[r.fn] = append(byFn[r.fn], "requires "+c.Text)
			}
		}
	}
	for _, r := range enss {
		con := cs.Funcs[r.fn]
		for _, c := range con.Ensures {
			if c == r.clause {
				byFn[r.fn] = append(byFn[r.fn], "ensures "+c.Text)
			}
		}
	}
	loopLines := map[string][]string{}
	for _, ic := range invs {
		alive := false
		for _, iv := range ic.ls.Invariants {
			if iv == ic.clause {
				alive = true
			}
		}
		if !alive {
			continue
		}
		hdr := fmt.Sprintf("loop %q", ic.ls.Key)
		if ic.ls.Ordinal > 1 {
			hdr += fmt.Sprintf(" #%d", ic.ls.Ordinal)
		}
		loopLines[ic.fn] = append(loopLines[ic.fn], hdr+":", "  invariant "+ic.clause.Text)
		if _, ok := byFn[ic.fn]; !ok {
			byFn[ic.fn] = nil
		}
	}
	var fns []string
	for f := range byFn {
		fns = append(fns, f)
	}
	sort.Strings(fns)
	nreq := 0
	for _, f := range fns {
		fmt.Fprintf(&b, "//@ func %s\n", f)
		for _, t := range byFn[f] {
			fmt.Fprintf(&b, "//@   %s\n", t)
			nreq++
		}
		for _, t := range loopLines[f] {
			fmt.Fprintf(&b, "//@   %s\n", t)
		}
	}
	if err := os.WriteFile(*out, []byte(b.String()), 0o644); err != nil {
		fmt.Fprintln(os.Stderr, err)
		os.Exit(2)
	}
	fmt.Printf("wrote %s: %d requires on %d functions\n", *out, nreq, len(fns))
}

// freeIds returns the identifiers of a contract expression that must be bound by the function
// (everything except builtins, result names and bound variables).
func freeIds(e *CExpr) []string {
	builtin := map[string]bool{"len": true, "cap": true, "old": true, "folded": true, "nlfree": true, "lower": true, "fresh": true,
		"shared": true, "istype": true, "dyn": true, "visited": true, "result": true, "result0": true, "result1": true, "result2": true}
	var out []string
	var walk func(x *CExpr, bound map[string]bool)
	walk = func(x *CExpr, bound map[string]bool) {
		switch x.Op {
		case "id":
			if !builtin[x.Name] && !bound[x.Name] {
				out = append(out, x.Name)
			}
		case "forall", "exists":
			nb := map[string]bool{}
			for k := range bound {
				nb[k] = true
			}
			for _, v := range x.Vars {
				nb[v.Name] = true
			}
			for _, a := range x.Args {
				walk(a, nb)
			}
			return
		case "call":
			for _, a := range x.Args[1:] {
				walk(a, bound)
			}
			if x.Args[0].Op != "id" {
				walk(x.Args[0], bound)
			}
			return
		}
		for _, a := range x.Args {
			walk(a, bound)
		}
	}
	walk(e, map[string]bool{})
	return out
}

type loopKey struct {
	key string
	ord int
}

// loopKeys lists the source loops of a function with the keys used in contract files.
func loopKeys(f *ssa.Function) []loopKey {
	var out []loopKey
	cnt := map[string]int{}
	syn := f.Syntax()
	ast.Inspect(syn, func(n ast.Node) bool {
		t := ""
		switch l := n.(type) {
		case *ast.ForStmt:
			t = "for"
			if l.Cond != nil {
				t = types.ExprString(l.Cond)
			}
		case *ast.RangeStmt:
			t = "range " + types.ExprString(l.X)
		case *ast.FuncLit:
			if n != syn {
				return false
			}
		}
		if t != "" {
			cnt[t]++
			out = append(out, loopKey{t, cnt[t]})
		}
		return true
	})
	return out
}

// paramNilChecked: the function compares the parameter with nil somewhere (it tolerates nil).
func paramNilChecked(f *ssa.Function, name string) bool {
	for _, p := range f.Params {
		if p.Name() != name {
			continue
		}
		for _, r := range *p.Referrers() {
			if b, ok := r.(*ssa.BinOp); ok && (isNilConst(b.X) || isNilConst(b.Y)) {
				return true
			}
		}
	}
	return false
}

// resultNilChecked: some caller compares the result of a call of f with nil.
func resultNilChecked(f *ssa.Function, callers []*ssa.Function) bool {
	for _, g := range callers {
		for _, b := range g.Blocks {
			for _, ins := range b.Instrs {
				c, ok := ins.(*ssa.Call)
				if !ok || c.Call.StaticCallee() != f {
					continue
				}
				for _, r := range *c.Referrers() {
					if bo, ok := r.(*ssa.BinOp); ok && (isNilConst(bo.X) || isNilConst(bo.Y)) {
						return true
					}
					if ex, ok := r.(*ssa.Extract); ok {
						for _, r2 := range *ex.Referrers() {
							if bo, ok := r2.(*ssa.BinOp); ok && (isNilConst(bo.X) || isNilConst(bo.Y)) {
								return true
							}
						}
					}
				}
			}
		}
	}
	return false
}

// usedAsValue: the function (or closure) is used other than as the callee of a direct call.
func (e *Engine) usedAsValue(f *ssa.Function) bool {
	if e.valueUse == nil {
		e.valueUse = map[*ssa.Function]bool{}
		for _, g := range e.order {
			for _, b := range g.Blocks {
				for _, ins := range b.Instrs {
					if mc, ok := ins.(*ssa.MakeClosure); ok {
						fn, _ := mc.Fn.(*ssa.Function)
						if fn == nil {
							continue
						}
						if refs := mc.Referrers(); refs != nil {
							for _, r := range *refs {
								if _, isDbg := r.(*ssa.DebugRef); isDbg {
									continue // a debug reference is not a use
								}
								call, isCall := r.(ssa.CallInstruction)
								if !isCall || call.Common().Value != ssa.Value(mc) {
									e.valueUse[fn] = true
								} else {
									for _, a := range call.Common().Args {
										if a == ssa.Value(mc) {
											e.valueUse[fn] = true
										}
									}
								}
							}
						}
						continue
					}
					var ops []*ssa.Value
					for _, op := range ins.Operands(ops) {
						fn, ok := (*op).(*ssa.Function)
						if !ok || fn.Pkg != e.pkg {
							continue
						}
						if call, isCall := ins.(ssa.CallInstruction); isCall && call.Common().Value == ssa.Value(fn) {
							used := false
							for _, a := range call.Common().Args {
								if a == ssa.Value(fn) {
									used = true
								}
							}
							if !used {
								continue
							}
						}
						e.valueUse[fn] = true
					}
				}
			}
		}
	}
	return e.valueUse[f]
}

// ownType: a pointer to / an interface or named type declared in the package under verification.
func (e *Engine) ownType(t types.Type) bool {
	if p, ok := t.Underlying().(*types.Pointer); ok {
		t = p.Elem()
	}
	nt, ok := t.(*types.Named)
	return ok && nt.Obj().Pkg() == e.tpkg
}

// decodedTypes: names of the container types reachable from a value handed to a reflection-based
// decoder (json / yaml Unmarshal, Decode).
func (e *Engine) decodedTypes() map[string]bool {
	out := map[string]bool{}
	seen := map[string]bool{}
	var walk func(t types.Type)
	walk = func(t types.Type) {
		k := e.typeName(t)
		if seen[k] {
			return
		}
		seen[k] = true
		switch u := t.Underlying().(type) {
		case *types.Pointer:
			walk(u.Elem())
		case *types.Slice:
			out[k] = true
			walk(u.Elem())
		case *types.Map:
			out[k] = true
			walk(u.Elem())
		case *types.Array:
			walk(u.Elem())
		case *types.Struct:
			for i := 0; i < u.NumFields(); i++ {
				walk(u.Field(i).Type())
			}
		}
	}
	for _, f := range e.order {
		for _, b := range f.Blocks {
			for _, ins := range b.Instrs {
				call, ok := ins.(ssa.CallInstruction)
				if !ok {
					continue
				}
				name := ""
				if g := call.Common().StaticCallee(); g != nil {
					name = libName(g)
				} else if call.Common().IsInvoke() {
					name = call.Common().Method.Name()
				}
				if !(strings.HasSuffix(name, "Unmarshal") || strings.HasSuffix(name, "Decode")) {
					continue
				}
				for _, a := range call.Common().Args {
					v := a
					if mi, ok := v.(*ssa.MakeInterface); ok {
						v = mi.X
					}
					if _, isPtr := v.Type().Underlying().(*types.Pointer); isPtr {
						walk(v.Type())
					}
				}
			}
		}
	}
	return out
}
