#!/bin/bash
# usage: seedrun.sh <dir with patch.diff> <prop> [<prop>...]   apply a seeded change to /repo, run checks, undo it
d=$(realpath "$1"); shift
cd /repo || exit 2
if [ -n "$(git status --porcelain --untracked-files=no)" ]; then echo "/repo has uncommitted changes" >&2; exit 2; fi
git apply "$d/patch.diff" || { echo "patch does not apply"; exit 2; }
for p in "$@"; do
  /verif/check "$p" quick | grep -E '^VIOLATION|^KNOWN|quick:' | cut -c1-260
  echo "  -> $p exit=${PIPESTATUS[0]}"
done
git -C /repo checkout -- . 
