#!/bin/bash
# False-alarm corpus: every /verif/benign/<Cxx>/benign-*.diff is a behaviour-preserving refactoring written by
# an independent sub-agent for code the property depends on. Each is applied in a scratch worktree of /repo
# HEAD and the check of that property (and C01) is run; any VIOLATION line is a false alarm.
# usage: tools/benign_run.sh [-j N] [Cxx ...]
cd /verif || exit 2
J=3
if [ "$1" = "-j" ]; then J=$2; shift 2; fi
props="$@"; [ -z "$props" ] && props=$(ls benign)
export GOFLAGS=-mod=mod GOPROXY=off GOSUMDB=off GOTOOLCHAIN=local
run_one() {
  f=$1; p=$(basename $(dirname $f)); n=$(basename $f .diff); wt=/tmp/wt/bn-$p-$n
  git -C /repo worktree add -q --detach "$wt" HEAD 2>/dev/null || { echo "SKIP  $p/$n (worktree)"; return; }
  if ! git -C "$wt" apply "$f" 2>/dev/null; then echo "SKIP  $p/$n (does not apply)"; git -C /repo worktree remove --force "$wt"; return; fi
  if ! (cd "$wt" && go build . >/dev/null 2>&1); then echo "SKIP  $p/$n (does not build)"; git -C /repo worktree remove --force "$wt"; return; fi
  # BENIGN_C01=new: the whole-package safety check (C01, the slowest one) only for the patches of the later
  # waves (benign-4 and up); default: for every patch
  qs="$p C01"
  if [ "$BENIGN_C01" = "new" ] && [ "${n#benign-}" -lt 4 ]; then qs="$p"; fi
  for q in $qs; do
    out=$(/verif/bin/govc check -repo "$wt" -prop "$q" -tier quick 2>&1); r=$?
    if [ $r -eq 0 ]; then echo "QUIET $p/$n under $q: $(echo "$out" | tail -1 | cut -c1-110)"; else echo "ALARM $p/$n under $q (exit $r): $(echo "$out" | grep '^VIOLATION' | head -2 | cut -c1-260)"; fi
    [ "$p" = "C01" ] && break
  done
  git -C /repo worktree remove --force "$wt" >/dev/null 2>&1
}
export -f run_one
for p in $props; do ls /verif/benign/$p/benign-*.diff 2>/dev/null; done | xargs -P "$J" -I{} bash -c 'run_one {}'
git -C /repo worktree prune
rm -rf /tmp/govc-scratch
