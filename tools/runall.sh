#!/bin/bash
# runs every claimed check (quick) on the current /repo tree and validates the evidence files
cd /verif
ids=$(python3 -c "import json;print(' '.join(c['property_id'] for c in json.load(open('MANIFEST.json'))['checks']))")
rc=0
for p in $ids; do
  out=$(./check $p quick | tail -1); r=$?
  echo "$out (exit ${PIPESTATUS[0]})"
  python3-vt -c "
import json,jsonschema,sys
ev=json.load(open('/verif/evidence/$p.json'))
jsonschema.validate(ev,json.load(open('/root/.vp/EVIDENCE.schema.json')))
c=ev['coverage']
assert c['obligations']==c['discharged'], (c['obligations'],c['discharged'])
" || { echo "  evidence problem for $p"; rc=1; }
done
exit $rc
