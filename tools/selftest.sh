#!/bin/bash
# Must-fail corpus: applies every seeded change of /verif/seeded (one at a time) to /repo, runs the quick
# check of each property listed under detected_by in its meta.json and requires exit 1 with a VIOLATION
# line; then checks that /repo is clean again. Seeds with an empty detected_by list are reported as
# known misses (not failures). usage: tools/selftest.sh [seed-id ...]
cd /verif || exit 2
if [ -n "$(git -C /repo status --porcelain --untracked-files=no)" ]; then echo "/repo has uncommitted changes" >&2; exit 2; fi
seeds="$@"; [ -z "$seeds" ] && seeds=$(ls seeded)
rc=0
for s in $seeds; do
  d=seeded/$s
  props=$(python3 -c "import json;print(' '.join(json.load(open('$d/meta.json'))['detected_by']))")
  if [ -z "$props" ]; then echo "MISS  $s (no check detects it; see DESIGN.md 8.3)"; continue; fi
  git -C /repo apply "$d/patch.diff" 2>/dev/null || { echo "SKIP  $s (patch does not apply on this tree)"; continue; }
  for p in $props; do
    out=$(./check "$p" quick 2>&1); r=$?
    if [ $r -eq 1 ] && echo "$out" | grep -q "^VIOLATION property=$p "; then echo "OK    $s detected by $p"; else echo "FAIL  $s NOT detected by $p (exit $r)"; rc=1; fi
  done
  git -C /repo checkout -- .
done
exit $rc
