#!/bin/bash
# Parallel variant of selftest.sh: every seed gets its own scratch worktree of /repo HEAD (outside /repo and
# /verif, removed afterwards), the patch is applied there and `govc check -repo <worktree>` is run for each
# property in detected_by. /repo itself is not touched. usage: tools/selftest_par.sh [-j N] [seed-id ...]
cd /verif || exit 2
J=3
if [ "$1" = "-j" ]; then J=$2; shift 2; fi
seeds="$@"; [ -z "$seeds" ] && seeds=$(ls seeded)
export GOFLAGS=-mod=mod GOPROXY=off GOSUMDB=off GOTOOLCHAIN=local
mkdir -p /tmp/wt
run_one() {
  s=$1; d=/verif/seeded/$s; wt=/tmp/wt/st-$s
  props=$(python3 -c "import json;print(' '.join(json.load(open('$d/meta.json'))['detected_by']))")
  if [ -z "$props" ]; then echo "MISS  $s (no check detects it or the seed is obsolete; see meta.json / DESIGN.md 8.3)"; return; fi
  git -C /repo worktree add -q --detach "$wt" HEAD 2>/dev/null || { echo "SKIP  $s (worktree)"; return; }
  if ! git -C "$wt" apply "$d/patch.diff" 2>/dev/null; then echo "SKIP  $s (patch does not apply on this tree)"; git -C /repo worktree remove --force "$wt"; return; fi
  for p in $props; do
    out=$(/verif/bin/govc check -repo "$wt" -prop "$p" -tier quick 2>&1); r=$?
    if [ $r -eq 1 ] && echo "$out" | grep -q "^VIOLATION property=$p "; then echo "OK    $s detected by $p"; else echo "FAIL  $s NOT detected by $p (exit $r)"; fi
  done
  git -C /repo worktree remove --force "$wt" >/dev/null 2>&1
}
export -f run_one
printf '%s\n' $seeds | xargs -P "$J" -I{} bash -c 'run_one {}'
git -C /repo worktree prune
rm -rf /tmp/govc-scratch
