#!/bin/bash
# usage: verify_seed.sh <dir with patch.diff and zz_seed_demo_test.go>
# Confirms in a scratch worktree of /repo HEAD: patch applies, package builds, existing suite passes with it,
# the demo test fails with the patch and passes without it.
set -u
export GOFLAGS=-mod=mod GOPROXY=off GOSUMDB=off GOTOOLCHAIN=local
d=$(realpath "$1"); wt=/tmp/wt/verify-$$
git -C /repo worktree add -q --detach "$wt" HEAD || exit 2
trap 'git -C /repo worktree remove --force "$wt" >/dev/null 2>&1' EXIT
cd "$wt"
git apply "$d/patch.diff" || { echo "RESULT patch-does-not-apply"; exit 1; }
go build ./... >/dev/null 2>&1 || { echo "RESULT does-not-build"; exit 1; }
go test -vet=off -count=1 . >/tmp/wt/verify-suite.$$ 2>&1; suite=$?
cp "$d/zz_seed_demo_test.go" .
go test -vet=off -count=1 -run 'TestSeedDemo' . >/tmp/wt/verify-with.$$ 2>&1; with=$?
git apply -R "$d/patch.diff"
go test -vet=off -count=1 -run 'TestSeedDemo' . >/tmp/wt/verify-without.$$ 2>&1; without=$?
echo "RESULT suite_with_patch=$suite demo_with_patch=$with demo_without_patch=$without"
rm -f /tmp/wt/verify-*.$$
[ $suite -eq 0 ] && [ $with -ne 0 ] && [ $without -eq 0 ]
