#!/bin/sh
# Build the verifier offline from files on disk only.
set -e
cd "$(dirname "$0")/govc"
export GOFLAGS=-mod=mod GOPROXY=off GOSUMDB=off GOTOOLCHAIN=local
mkdir -p ../bin
go build -o ../bin/govc .
